#!/usr/bin/env python3
"""Run all checks against a property-PRESERVING change (tools/refactor.py <name under /tmp/seed>): no check may raise an alarm.
Keeps patch.diff + NOTES.md + meta.json under /verif/refactors/<name>/."""
import glob, json, os, shutil, subprocess, sys, time
VERIF = os.path.dirname(os.path.dirname(os.path.abspath(__file__)))
WT = "/tmp/seedverify/wt"
BASES = {}
ALL = ["C01", "C04", "C05", "C06", "C08", "C13", "C17", "C18", "C19"]


def sh(cmd, **kw):
    return subprocess.run(cmd, stdout=subprocess.PIPE, stderr=subprocess.STDOUT, **kw)


def main():
    name = sys.argv[1]
    checks = sys.argv[2:] or ALL
    src = os.path.join("/tmp/seed", name)
    dst = os.path.join(VERIF, "refactors", name)
    os.makedirs(dst, exist_ok=True)
    for f in ("patch.diff", "NOTES.md"):
        if os.path.isfile(os.path.join(src, f)):
            shutil.copy(os.path.join(src, f), os.path.join(dst, f))
    patch = os.path.join(dst, "patch.diff")
    env = dict(os.environ, CARGO_NET_OFFLINE="true")
    os.makedirs(os.path.dirname(WT), exist_ok=True)
    if not os.path.isdir(WT):
        sh(["git", "-C", "/repo", "worktree", "add", "--detach", WT, "HEAD"])
    sh(["git", "-C", WT, "checkout", "--", "."]); sh(["git", "-C", WT, "clean", "-fdq", "src"])
    sh(["git", "-C", WT, "checkout", "--detach", BASES.get(name) or sh(["git", "-C", "/repo", "rev-parse", "HEAD"]).stdout.decode().strip()])
    p = sh(["git", "-C", WT, "apply", patch])
    if p.returncode:
        print("patch does not apply:", p.stdout.decode())
        return 2
    tp = sh(["cargo", "test", "--workspace", "--no-fail-fast", "--offline"], cwd=WT, env=env)
    passed = "137 passed; 0 failed" in tp.stdout.decode("utf-8", "replace") and tp.returncode == 0
    sh(["git", "-C", WT, "checkout", "--", "."]); sh(["git", "-C", WT, "clean", "-fdq", "src"])
    print("tests_pass=%s" % passed)
    if sh(["git", "-C", "/repo", "status", "--porcelain", "--untracked-files=no"]).stdout.decode().strip():
        print("/repo not clean")
        return 2
    envc = dict(os.environ)
    in_repo = True
    if sh(["git", "-C", "/repo", "apply", patch]).returncode:
        base = BASES.get(name)
        if not base:
            print("patch does not apply to /repo")
            return 2
        in_repo = False
        sh(["git", "-C", WT, "checkout", "--", "."]); sh(["git", "-C", WT, "clean", "-fdq", "src"])
        sh(["git", "-C", WT, "checkout", "--detach", base])
        if sh(["git", "-C", WT, "apply", patch]).returncode:
            print("patch does not apply to its base either")
            return 2
        envc.update(FSIM_REPO=WT, FSIM_CACHE="/tmp/seedverify/cache")
    results = {}
    try:
        for c in checks:
            t0 = time.time()
            cp = sh([os.path.join(VERIF, "check"), c], cwd=VERIF, env=envc)
            out = cp.stdout.decode("utf-8", "replace")
            sigs = sorted({l.split("signature=")[1].split(" ")[0] for l in out.splitlines() if "signature=" in l and "KNOWN" not in l})
            results[c] = {"exit": cp.returncode, "signatures": sigs, "wall_s": round(time.time() - t0, 1)}
            print("check %s: exit %d %s" % (c, cp.returncode, sigs[:4]), flush=True)
            if cp.returncode:
                keep = os.path.join(dst, "alarm-%s.log" % c)
                open(keep, "w").write(out[-6000:])
                for f in glob.glob(os.path.join(VERIF, "replays", "%s-*.json" % c))[:2]:
                    shutil.copy(f, dst)
    finally:
        if in_repo:
            sh(["git", "-C", "/repo", "checkout", "--", "."]); sh(["git", "-C", "/repo", "clean", "-fdq", "src"])
        else:
            sh(["git", "-C", WT, "checkout", "--", "."]); sh(["git", "-C", WT, "clean", "-fdq", "src"])
        sh(["git", "-C", VERIF, "checkout", "--", "evidence"])
        for f in glob.glob(os.path.join(VERIF, "replays", "*.json")):
            os.remove(f)
        sh([sys.executable, "-c", "import sys; sys.path.insert(0, %r); from fsim import core; core.build(quiet=True)" % VERIF])
    json.dump({"name": name, "tests_pass": passed, "checks": results, "alarms": [c for c, r in results.items() if r["exit"] != 0],
               "verif_commit": sh(["git", "-C", VERIF, "rev-parse", "--short", "HEAD"]).stdout.decode().strip()}, open(os.path.join(dst, "meta.json"), "w"), indent=1)
    return 0


if __name__ == "__main__":
    sys.exit(main())
