#!/usr/bin/env python3
"""tools/seedmeta.py <name> <idea> <needs>: record what a seeded change is and what it needs to manifest."""
import json, os, sys
p = os.path.join(os.path.dirname(os.path.dirname(os.path.abspath(__file__))), "seeded", sys.argv[1], "meta.json")
m = json.load(open(p))
m["idea"], m["needs"] = sys.argv[2], sys.argv[3]
json.dump(m, open(p, "w"), indent=1)
