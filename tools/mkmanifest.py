#!/usr/bin/env python3
"""Regenerate /verif/MANIFEST.json (claimed checks + not_applicable list)."""
import json
import os

VERIF = os.path.dirname(os.path.dirname(os.path.abspath(__file__)))

NA = {
    "C02": "pure function of one entry's already-fetched attributes and a literal (comparison tables); no schedule, clock, fault or interleaving can change its truth, so a simulation would only be input generation in simulator vocabulary",
    "C03": "pure Boolean algebra of the parser and evaluator over query text; no environment event participates",
    "C07": "aggregates are commutative functions of the multiset of matching rows; no arrival order, seed, clock or fault changes their truth (its one fault-shaped clause, aggregates over readable data, is asserted under C17.B)",
    "C09": "the formatters are pure code over a finished result table; the environment-facing part (stream integrity under short writes and consumer closure, all six formats) is asserted under C17.C",
    "C10": "pure function of the argument vector; parse-time rejection happens before any environment call and a non-terminating parse loop makes no call a simulator could count",
    "C11": "pure lexer/parser equivalence over query text",
    "C12": "pure per (subject, pattern, operator); no environment interaction",
    "C14": "pure unit tables and formatting arithmetic",
    "C15": "pure arithmetic/precedence over one row; the memo involved is intra-row and not fed by environment events",
    "C16": "pure scalar functions of their argument strings",
    "C20": "the ignore verdict is a pure function of pattern-file text, path and root spelling; nothing in the statement involves a fault, an order or a clock (git's verdict is computed inside libgit2)",
}

TRUST = ("Trusted: the shim's rewriting of libc answers (shim/fsim.c), the Python reference model (cross-checked against os.walk/os.lstat of the materialised world on every case), "
         "tmpfs as dumb storage, glibc/std as real code. Queries are one quoted argument with quoted literals. Sampling, not proof.")
TECH = "deterministic simulation at the libc seam (LD_PRELOAD plan-driven shim), seeded search over schedules/faults, minimised replay"

CHECKS = {
    "C01": ("exploration",
            "Seeded search over (tree incl. device nodes, path-syntax-like and non-UTF-8 names, root list spelled default/relative/./relative/absolute/nested/./../other from inside a root or as a pattern (`rx`), depth window, bfs/dfs, `archives`/ignore options that must change nothing, rows read through list/csv/json) x environment (arrival order of every directory stream, DT_UNKNOWN, inode renumbering incl. a colliding second device, hash seed); "
            "the whole real binary runs; oracle = reference walk + bfs/dfs order clauses over the recorded row history; both traversal modes per case.",
            "No faults here (C17). " + TRUST, "DESIGN.md section 5 C01"),
    "C04": ("exploration",
            "The simulator gives the OS's answers and holds the answer sheet: exhaustive enumeration of all 4096 permission values x 7 file types (mode string, permission/suid/sgid booleans, exactly-one type flag), "
            "overlaid lstat answers (size/uid/gid/nlink/blocks/inode/mtime, ids with and without names) under permuted arrival orders and DT_UNKNOWN, and content readers (sha1/256/512/sha3, line_count, is_shebang, contains) "
            "under simulated read chunking / short reads around the 8 KiB and 32 KiB buffer boundaries, has_xattrs / capabilities against real tmpfs attributes (each of the 41 capabilities x effective x {p,i,ip} enumerated, random sets), "
            "unasserted columns mixed into the select list and WHERE (the per-entry cache must not leak); oracle = the overlay values, stat.filemode, hashlib, the VFS capability layout.",
            "Pure decompositions (name/ext/dir/abspath, extension classes) are covered only as a by-product; the xattr system calls are raw system calls and do not pass the seam: their answers are real tmpfs attributes and no fault is injected into them. " + TRUST,
            "DESIGN.md section 5 C04"),
    "C05": ("exploration",
            "Seeded search over (tree with ties and string-vs-numeric traps, 1-3 keys asc/desc, positional/explicit, selected or not) x arrival order classes incl. key-ascending/descending x hash seed; "
            "keys incl. 64-bit answers within one f64 ulp, DST-hour mtimes, numeric functions of dates; oracle = conservation against fselect's own unordered run + pairwise sortedness under the documented typing over fselect's own key values (exact integers).",
            TRUST, "DESIGN.md section 5 C05"),
    "C06": ("exploration",
            "Per (world, query, E): one unlimited run (M rows, cross-checked against count(*)), then limit N for EVERY N in 0..M+2 under two different arrival orders; filtered/ordered/multi-root/bfs/dfs/archives, "
            "15% of the campaigns with entries whose lstat fails in every run, limits also counted through json/csv/html/lines/tabs; oracle relational to fselect's own unlimited run (count, sub-multiset, first-N keys).",
            "Exhaustive in N per sampled case only. " + TRUST, "DESIGN.md section 5 C06"),
    "C08": ("exploration",
            "Partitions live in a HashMap with RandomState: the shim owns getrandom, so each case is run under several hash seeds and arrival orders; oracle = one row per distinct key, conservation of COUNT/SUM against the ungrouped query, "
            "each group equal to the ungrouped aggregate restricted to key = value, sortedness under ORDER BY for every seed, and the ORDER BY order independent of the hash seed; key values that collide when joined with a separator.",
            TRUST, "DESIGN.md section 5 C08"),
    "C13": ("exploration",
            "Simulated wall clock (instants around local midnight, DST days, leap day, year end; frozen, ticking, and midnight striking at the k-th clock read for every k) x seven time zones x file times on the interval-edge grid incl. DST-switch instants, pre-1970 and sub-second times; oracle = closed-interval model in the same zone (zoneinfo); "
            "trichotomy, complement, relative literals as whole local days, modified column formatting.",
            "A clock jumping across midnight mid-run and zones whose DST switch deletes local midnight are informational only. " + TRUST, "DESIGN.md section 5 C13"),
    "C17": ("fault_enumeration",
            "Core target. A: 1-3 directories made unlistable by opendir/realpath errors, vanish / replaced-by-file races, mid-stream readdir errors and an unsearchable parent (every access through it refused), with a fault-free control run "
            "and a model-driven requirement that an unenterable directory is reported, never skipped silently; "
            "B: open errors and read errors at byte offsets, lstat failures, vanish before/after the first lstat, unreadable link text, short reads, FIFO without writer, relational to the fault-free run incl. aggregates over readable data; "
            "C: EVERY stdout close offset 0..L per sampled (world, query, six formats, four result paths) plus short-write schedules, prefix law + no crash + status in {0,1}; "
            "D: alignment sweep - the stream is shifted byte by byte (44 shifts) against std's 1 KiB stdout buffer, each with close offsets around the buffer boundaries.",
            "Fault positions are sampled; close offsets are exhaustive per sampled case up to a length bound, sampled around 1 KiB multiples above it. xattr faults, stderr closure, ENOSPC, EINTR, allocation failure are out of scope. " + TRUST,
            "DESIGN.md section 5 C17"),
    "C18": ("exploration",
            "Seeded search over link graphs (relative/absolute targets, to files, dirs inside/outside/above the root, ancestors, self-links, mutual pairs, chains, dangling) x root spelling x cwd x bfs/dfs x arrival order "
            "(which path reaches a real directory first) x DT_UNKNOWN x inode numbering, links also inside the sibling tree, chains across directories, optionally two `symlinks` roots in one query; termination decided by a step budget on simulated events; "
            "oracle = reachability model over real directories, exactly-once by real identity.",
            "With a depth window only termination/once/off are asserted. " + TRUST, "DESIGN.md section 5 C18"),
    "C19": ("fault_enumeration",
            "Fault-free: member rows against a zipfile model (incl. stored times in DST-skipped/repeated hours, simulated clock on the 29th-31st), ordinary rows relational to the same query without `archives`, WHERE/ORDER BY/LIMIT and their combinations. Faults: EVERY truncation length and EVERY single-byte flip of the central directory / end record of small archives, "
            "open/read errors at offsets during parsing, short-read schedules, vanish between readdir and open; oracle = other rows untouched, status in {0,1}, no crash, step budget.",
            "Exhaustive per sampled archive only. " + TRUST, "DESIGN.md section 5 C19"),
}


def main():
    claimed = [c for c in sorted(CHECKS) if os.path.exists(os.path.join(VERIF, "fsim", "checks", c.lower() + ".py"))]
    m = {
        "version": 1,
        "setup_cmd": "python3 -c \"import sys; sys.path.insert(0,'/verif'); from fsim import core; core.build()\"",
        "hooks": {"guard": "fselect_verif",
                  "enable": "none needed: the seam is the libc ABI (LD_PRELOAD=/verif/.cache/libfsim.so); checks build /repo's working tree with plain `cargo build --offline --release` (LTO off) into /verif/.cache/target",
                  "baseline_off_cmd": "cd /repo && cargo test --workspace --no-fail-fast --offline",
                  "source_commits": [], "add_only": True},
        "engines": [{"name": "fsim", "path": "/verif/fsim, /verif/shim/fsim.c, /verif/check", "serves_properties": claimed,
                     "kind_free_text": "deterministic simulation of the process's environment at the libc seam: the real fselect binary runs against a plan-driven simulated file system / stdout consumer / clock / entropy / user database; "
                                       "seeded search over worlds, schedules (arrival orders, hash seeds) and fault sequences; violations are minimised and written as replay files that reproduce in a fresh process"}],
        "checks": [],
        "notes": "See DESIGN.md. Default VERIF_SEED is fixed (20261004); exit 2 = harness error (never a verdict). Unclaimed properties are listed under not_applicable with the reason (pure functions: no schedule, clock, fault or interleaving).",
        "not_applicable": [{"property_id": k, "reason": v} for k, v in sorted(NA.items())],
    }
    for pid in claimed:
        cat, text, note, ref = CHECKS[pid]
        m["checks"].append({"property_id": pid, "quick_cmd": "./check %s --tier quick" % pid, "thorough_cmd": "./check %s --tier thorough" % pid,
                            "evidence_file": "/verif/evidence/%s.json" % pid, "replay_cmd_template": "./check %s --replay {path}" % pid, "engine": "fsim",
                            "level_claimed": {"category": cat, "text": text, "design_ref": ref}, "level_note": note, "technique": TECH})
    unclaimed_but_planned = [c for c in sorted(CHECKS) if c not in claimed]
    for c in unclaimed_but_planned:
        m["not_applicable"].append({"property_id": c, "reason": "simulation target per DESIGN.md but its check is not built yet in this commit; nothing is claimed for it"})
    m["not_applicable"].sort(key=lambda x: x["property_id"])
    with open(os.path.join(VERIF, "MANIFEST.json"), "w") as f:
        json.dump(m, f, indent=1)
    print("claimed:", claimed)


if __name__ == "__main__":
    main()
