#!/usr/bin/env python3
"""Re-run every kept seeded change against the check(s) that caught it last time; report any that is no longer caught."""
import glob, json, os, subprocess, sys
V = os.path.dirname(os.path.dirname(os.path.abspath(__file__)))
missed = []
for p in sorted(glob.glob(os.path.join(V, "seeded", "*", "meta.json"))):
    m = json.load(open(p))
    if sys.argv[1:] and m["name"] not in sys.argv[1:]:
        continue
    checks = m.get("caught_by") or [m["property"]]
    r = subprocess.run([sys.executable, os.path.join(V, "tools", "seeded.py"), m["name"], m["property"]] + checks[:1], stdout=subprocess.PIPE, stderr=subprocess.STDOUT)
    out = r.stdout.decode()
    m2 = json.load(open(p))
    ok = bool(m2.get("caught_by")) and (m2.get("confirmed") or m2.get("confirmed_on_base"))
    print("%s: %s %s" % (m["name"], "caught" if ok else "MISSED", [(c, v["signatures"][:2]) for c, v in m2.get("checks", {}).items()]), flush=True)
    if not ok:
        missed.append(m["name"])
        print(out[-800:])
print("seeded_all: %d missed %s" % (len(missed), missed))
