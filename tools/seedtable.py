#!/usr/bin/env python3
"""Print the markdown table of seeded changes (from seeded/*/meta.json) for DESIGN.md section 13.6."""
import glob, json, os
V = os.path.dirname(os.path.dirname(os.path.abspath(__file__)))
print("| id | property | change | needs, in order to manifest | first result | now caught by (signatures) |")
print("|---|---|---|---|---|---|")
for p in sorted(glob.glob(os.path.join(V, "seeded", "*", "meta.json"))):
    m = json.load(open(p))
    hist = m.get("history", [])
    first = hist[0]["checks"] if hist else m.get("checks", {})
    fr = "; ".join("%s %s" % (c, "caught" if r["exit"] == 1 else "MISSED") for c, r in first.items())
    now = "; ".join("%s: %s" % (c, ", ".join(r["signatures"][:2]) or "-") for c, r in m.get("checks", {}).items() if r["exit"] == 1) or "MISSED"
    print("| %s | %s | %s | %s | %s | %s |" % (m["name"], m["property"], m.get("idea", "").replace("|", "/"), m.get("needs", "").replace("|", "/"), fr, now))
