#!/usr/bin/env python3
"""Confirm a sub-agent's seeded change independently and run the checks against it.

usage: tools/seeded.py <agent-dir under /tmp/seed> <property> [check ...]

 1. copies patch.diff, the demonstration and NOTES.md to /verif/seeded/<name>/
 2. in a scratch worktree (/tmp/seedverify/wt, own target dir): builds the unchanged tree, runs the demo (must exit 0);
    applies the patch, runs the pinned test suite (must pass), builds, runs the demo (must exit 1)
 3. applies the patch to /repo (git apply), runs the listed checks (default: the property's), and undoes it (git checkout -- .)
 4. writes /verif/seeded/<name>/meta.json
"""
import glob
import json
import os
import shutil
import subprocess
import sys
import time

VERIF = os.path.dirname(os.path.dirname(os.path.abspath(__file__)))
WT = "/tmp/seedverify/wt"
# patches written before a later `fix:` commit touched the same lines: the commit they apply to
BASES = {"C08c": "d451ffb", "C04l": "47f4ce1"}


def sh(cmd, **kw):
    return subprocess.run(cmd, stdout=subprocess.PIPE, stderr=subprocess.STDOUT, **kw)


def main():
    name, prop = sys.argv[1], sys.argv[2]
    checks = sys.argv[3:] or [prop]
    src = os.path.join("/tmp/seed", name)
    dst = os.path.join(VERIF, "seeded", name)
    os.makedirs(dst, exist_ok=True)
    demo = None
    if not os.path.isdir(src):
        # the agent's worktree is gone: work from the kept copy
        for f in sorted(os.listdir(dst)):
            if f.startswith("demo"):
                demo = demo or f
    for f in ["patch.diff", "NOTES.md"] + [os.path.basename(x) for x in glob.glob(src + "/demo*") + glob.glob(src + "/*.c") + glob.glob(src + "/*.py") + glob.glob(src + "/*.sh")]:
        p = os.path.join(src, f)
        if os.path.isdir(src) and os.path.isfile(p) and os.path.getsize(p) < 200000:
            shutil.copy(p, os.path.join(dst, f))
            if f.startswith("demo"):
                demo = demo or f
    if demo is None or not os.path.exists(os.path.join(dst, "patch.diff")):
        print("missing demo or patch")
        return 2
    meta = {"name": name, "property": prop, "demo": demo, "ran": []}
    env = dict(os.environ, CARGO_NET_OFFLINE="true")
    os.makedirs(os.path.dirname(WT), exist_ok=True)
    if not os.path.isdir(WT):
        p = sh(["git", "-C", "/repo", "worktree", "add", "--detach", WT, "HEAD"])
        if p.returncode:
            print(p.stdout.decode())
            return 2
    sh(["git", "-C", WT, "checkout", "--", "."]); sh(["git", "-C", WT, "clean", "-fdq", "src"])
    sh(["git", "-C", WT, "checkout", "--detach", BASES.get(name) or sh(["git", "-C", "/repo", "rev-parse", "HEAD"]).stdout.decode().strip()])

    def build(tag):
        p = sh(["cargo", "build", "--offline", "--quiet"], cwd=WT, env=env)
        if p.returncode:
            print(p.stdout.decode()[-3000:])
            return None
        out = os.path.join("/tmp/seedverify", "fselect." + tag)
        shutil.copy(os.path.join(WT, "target/debug/fselect"), out)
        return out

    def run_demo(binary):
        d = os.path.join(dst, demo)
        cmd = ([sys.executable, d] if demo.endswith(".py") else ["bash", d]) + [binary]
        p = sh(cmd, cwd=src if os.path.isdir(src) else dst, timeout=600)
        return p.returncode, p.stdout.decode("utf-8", "replace")[-600:]

    orig = build("orig")
    if not orig:
        return 2
    rc0, out0 = run_demo(orig)
    meta["ran"].append({"cmd": "demo with the unchanged tree", "exit": rc0})
    p = sh(["git", "-C", WT, "apply", os.path.join(dst, "patch.diff")])
    if p.returncode:
        print("patch does not apply:", p.stdout.decode())
        meta["confirmed"] = False
        json.dump(meta, open(os.path.join(dst, "meta.json"), "w"), indent=1)
        return 1
    tp = sh(["cargo", "test", "--workspace", "--no-fail-fast", "--offline"], cwd=WT, env=env)
    tout = tp.stdout.decode("utf-8", "replace")
    import re as _re
    mt = _re.search(r"test result: ok\. (\d+) passed; 0 failed", tout)
    passed = bool(mt) and int(mt.group(1)) >= 137 and tp.returncode == 0  # a change may add tests of its own
    meta["ran"].append({"cmd": "cargo test --workspace --no-fail-fast --offline (patched)", "ok": passed})
    changed = build("changed")
    if not changed:
        return 2
    rc1, out1 = run_demo(changed)
    meta["ran"].append({"cmd": "demo with the patched tree", "exit": rc1, "tail": out1[-300:]})
    meta["confirmed"] = bool(passed and rc0 == 0 and rc1 == 1)
    print("confirm: tests_pass=%s demo_unchanged=%s demo_patched=%s" % (passed, rc0, rc1))
    sh(["git", "-C", WT, "checkout", "--", "."]); sh(["git", "-C", WT, "clean", "-fdq", "src"])
    # ---- run the checks against /repo with the patch applied, then undo
    results = {}
    st = sh(["git", "-C", "/repo", "status", "--porcelain", "--untracked-files=no"]).stdout.decode().strip()
    if st:
        print("/repo has uncommitted changes; refusing to apply")
        return 2
    envc = dict(os.environ)
    in_repo = True
    p = sh(["git", "-C", "/repo", "apply", os.path.join(dst, "patch.diff")])
    if p.returncode:
        # written against an earlier commit (before a later fix: touched the same lines): run the checks against a
        # scratch worktree at that base commit instead (FSIM_REPO), /repo stays untouched
        base = BASES.get(name)
        if not base:
            print("patch does not apply to /repo:", p.stdout.decode())
            return 2
        in_repo = False
        sh(["git", "-C", WT, "checkout", "--", "."]); sh(["git", "-C", WT, "clean", "-fdq", "src"])
        sh(["git", "-C", WT, "checkout", "--detach", base])
        if sh(["git", "-C", WT, "apply", os.path.join(dst, "patch.diff")]).returncode:
            print("patch does not apply to its base either")
            return 2
        envc.update(FSIM_REPO=WT, FSIM_CACHE="/tmp/seedverify/cache")
        meta["base_commit"] = base
    try:
        for c in checks:
            t0 = time.time()
            cp = sh([os.path.join(VERIF, "check"), c], cwd=VERIF, env=envc)
            out = cp.stdout.decode("utf-8", "replace")
            sigs = sorted({l.split("signature=")[1].split(" ")[0] for l in out.splitlines() if "signature=" in l and "KNOWN" not in l})
            results[c] = {"exit": cp.returncode, "signatures": sigs, "wall_s": round(time.time() - t0, 1)}
            print("check %s: exit %d %s" % (c, cp.returncode, sigs[:4]))
            if cp.returncode == 2:
                print(out[-1500:])
    finally:
        if in_repo:
            sh(["git", "-C", "/repo", "checkout", "--", "."]); sh(["git", "-C", "/repo", "clean", "-fdq", "src"])
        else:
            sh(["git", "-C", WT, "checkout", "--", "."]); sh(["git", "-C", WT, "clean", "-fdq", "src"])
        sh(["git", "-C", VERIF, "checkout", "--", "evidence"])
        # replays written while testing a seeded change are not findings about /repo
        for f in glob.glob(os.path.join(VERIF, "replays", "*.json")):
            os.remove(f)
        # rebuild the unpatched binary so that later runs start from the real tree
        sh([sys.executable, "-c", "import sys; sys.path.insert(0, %r); from fsim import core; core.build(quiet=True)" % VERIF])
    old = {}
    mp = os.path.join(dst, "meta.json")
    if os.path.exists(mp):
        old = json.load(open(mp))
    hist = old.get("history", [])
    if old.get("checks"):
        hist.append({"verif_commit": old.get("verif_commit"), "checks": old["checks"]})
    meta["history"] = hist
    meta["verif_commit"] = sh(["git", "-C", VERIF, "rev-parse", "--short", "HEAD"]).stdout.decode().strip() + "+worktree"
    meta["checks"] = results
    meta["caught_by"] = [c for c, r in results.items() if r["exit"] == 1]
    for k in ("needs", "idea", "note", "confirmed_on_base"):
        if k in old:
            meta[k] = old[k]
    if meta.get("confirmed_on_base"):
        meta["confirmed"] = True
    json.dump(meta, open(mp, "w"), indent=1)
    return 0


if __name__ == "__main__":
    sys.exit(main())
