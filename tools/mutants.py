#!/usr/bin/env python3
"""Sensitivity: apply deliberate property-breaking changes in a scratch worktree of /repo (never in /repo),
build it, run the quick check of the property against it (FSIM_REPO), expect a VIOLATION; then clean up.

usage: tools/mutants.py [--tests] [--cases N] [mutant-id ...]
"""
import json
import os
import subprocess
import sys
import time

VERIF = os.path.dirname(os.path.dirname(os.path.abspath(__file__)))
WT = "/tmp/fsim-mutants/wt"
CACHE = "/tmp/fsim-mutants/cache"

S = "src/searcher.rs"
U = "src/util/mod.rs"
M = "src/mode.rs"
T = "src/util/top_n.rs"
D = "src/util/datetime.rs"

MUTANTS = [
    # id, property, file, old, new
    ("C01-maxdepth-le", "C01", S, "if max_depth == 0 || depth < max_depth {", "if max_depth == 0 || depth <= max_depth {"),
    ("C01-mindepth-gt", "C01", S, "if min_depth == 0 || depth >= min_depth {", "if min_depth == 0 || depth > min_depth {"),
    ("C01-bfs-pop-back", "C01", S, "let path = self.dir_queue.pop_front().unwrap();", "let path = self.dir_queue.pop_back().unwrap();"),
    ("C01-skip-dotfiles", "C01", S, "                            let mut path = entry.path();\n", "                            let mut path = entry.path();\n                            if entry.file_name().to_string_lossy().starts_with(\".\") && entry.file_name().len() > 4 { continue; }\n"),
    ("C01-visited-bare-inode", "C01", S, "Ok(metadata) => (metadata.dev(), metadata.ino()),", "Ok(metadata) => (0, metadata.ino()),"),
    ("C04-metadata-follows-links", "C04", U, "false => entry.metadata(),", "false => std::fs::metadata(entry.path()),"),
    ("C04-no-fms-clear", "C04", S, "        self.line_count_set = false;\n        self.line_count = None;\n", ""),
    ("C04-swap-group-other-read", "C04", M, "const S_IRGRP: u32 = 0o40;", "const S_IRGRP: u32 = 0o4;"),
    ("C04-suid-tests-sgid", "C04", M, "const S_ISUID: u32 = 0o4000;", "const S_ISUID: u32 = 0o2000;"),
    ("C04-linecount-consume-short", "C04", U, "            reader.consume(len);", "            reader.consume(if len > 8000 { len - 1 } else { len });"),
    ("C04-hash-single-read", "C04", U, "        let mut hasher = sha1::Sha1::new();\n        if io::copy(&mut file, &mut hasher).is_ok() {", "        let mut hasher = sha1::Sha1::new();\n        let mut b = vec![0u8; 65536];\n        if let Ok(n) = std::io::Read::read(&mut file, &mut b) {\n            hasher.update(&b[..n]);"),
    ("C04-shebang-read-not-exact", "C04", U, "if buf_reader.read_exact(&mut buf).is_ok() {", "if std::io::Read::read(&mut buf_reader.get_mut(), &mut buf).is_ok() {"),
    ("C05-ignore-desc", "C05", U, "        if self.orderings[i] {\n            comparison", "        if self.orderings[i] || i > 0 {\n            comparison"),
    ("C05-numeric-as-string", "C05", U, "if field.contains_numeric() {\n            comparison = self.cmp_at_numbers(other, i);", "if field.contains_numeric() && i == 0 {\n            comparison = self.cmp_at_numbers(other, i);"),
    ("C05-cmp-first-key-only", "C05", U, "for i in 0..(self.values.len().min(other.values.len())) {", "for i in 0..(self.values.len().min(other.values.len()).min(2)) {"),
    ("C06-limit-off-by-one", "C06", S, "if !self.is_buffered() && self.query.limit > 0 && self.query.limit <= self.found\n", "if !self.is_buffered() && self.query.limit > 0 && self.query.limit < self.found\n"),
    ("C06-evict-first-echelon", "C06", T, "let last_key = self.echelons.iter().next_back().unwrap().0.clone();", "let last_key = self.echelons.iter().next().unwrap().0.clone();"),
    ("C06-archive-limit-buffered", "C06", S, "if !self.is_buffered()\n                                                        && self.query.limit > 0", "if self.query.limit > 0"),
    ("C08-partition-first-key-only", "C08", S, "                .map(|f| item.get(f).unwrap_or(&String::new()).clone())\n                .collect();", "                .take(1).map(|f| item.get(f).unwrap_or(&String::new()).clone())\n                .collect();"),
    ("C08-no-sort", "C08", S, "if !self.query.ordering_fields.is_empty() {\n                    let ordering_fields = self", "if !self.query.ordering_fields.is_empty() && results.len() < 3 {\n                    let ordering_fields = self"),
    ("C08-aggregate-global-buffer", "C08", S, "                                Some(f.1),\n", "                                if f.1.len() == 3 { None } else { Some(f.1) },\n"),
    ("C13-sec-finish-zero", "C13", D, "                    sec_start = 0;\n                    sec_finish = 59;", "                    sec_start = 0;\n                    sec_finish = 58;"),
    ("C13-gt-inclusive", "C13", S, "Op::Gt => dt > finish,", "Op::Gt => dt >= finish,"),
    ("C13-yesterday-plus", "C13", D, "let date = Local::now().date_naive() - Duration::try_days(1).unwrap();", "let date = Local::now().date_naive() + Duration::try_days(1).unwrap();"),
    ("C13-today-utc", "C13", D, "    if s == \"today\" {\n        let date = Local::now().date_naive();", "    if s == \"today\" {\n        let date = chrono::Utc::now().date_naive();"),
    ("C17-no-error-count-readdir", "C17", S, "            Err(err) => {\n                self.error_count += 1;\n                path_error_message(dir, err);\n            }\n        }\n\n        if traversal_mode == Bfs", "            Err(err) => {\n                path_error_message(dir, err);\n            }\n        }\n\n        if traversal_mode == Bfs"),
    ("C17-propagate-readdir-error", "C17", S, "        match fs::read_dir(dir) {\n            Ok(entry_list) => {", "        match Ok::<_, io::Error>(fs::read_dir(dir)?) {\n            Ok(entry_list) => {"),
    ("C17-footer-unwrap", "C17", S, "        if let Err(e) = self.results_writer.write_footer(&mut std::io::stdout()) {\n            if e.kind() == ErrorKind::BrokenPipe {\n                return Ok(());\n            }\n            return Err(e);\n        }", "        self.results_writer.write_footer(&mut std::io::stdout())?;"),
    ("C17-partial-digest", "C17", U, "        let mut hasher = sha2::Sha256::new();\n        if io::copy(&mut file, &mut hasher).is_ok() {\n            let hash = hasher.finalize();\n            return format!(\"{:x}\", hash);\n        }", "        let mut hasher = sha2::Sha256::new();\n        let _ = io::copy(&mut file, &mut hasher);\n        {\n            let hash = hasher.finalize();\n            return format!(\"{:x}\", hash);\n        }"),
    ("C17-linecount-partial", "C17", U, "                } else {\n                    return None;\n                }", "                } else {\n                    return Some(count);\n                }"),
    ("C18-no-visited-check", "C18", S, "            && !self.visited_dirs.insert(PathBuf::from(&canonical_path))", "            && !self.visited_dirs.insert(dir.to_path_buf())"),
    ("C18-raw-link-target", "C18", S, "let target = dir.join(resolved);", "let target = resolved;"),
    ("C19-zip-unwrap", "C19", S, "if let Ok(mut archive) = zip::ZipArchive::new(file) {", "if let Ok(mut archive) = Ok::<_, ()>(zip::ZipArchive::new(file).unwrap()) {"),
    ("C19-by-index-unwrap", "C19", S, "if let Ok(afile) = archive.by_index(i) {", "if let Ok(afile) = Ok::<_, ()>(archive.by_index(i).unwrap()) {"),
    ("C19-skip-last-member", "C19", S, "for i in 0..archive.len() {", "for i in 0..archive.len().min(6) {"),
    ("C18-follow-without-option", "C18", [S, S], ["if self.current_follow_symlinks {\n                                                if let Ok(resolved)", "            false => !file_type.is_symlink(),\n        }\n    }\n\n    #[cfg(not(unix))]"],
     ["if true {\n                                                if let Ok(resolved)", "            false => true,\n        }\n    }\n\n    #[cfg(not(unix))]"]),
    ("C01-follow-without-option", "C01", [S, S], ["if self.current_follow_symlinks {\n                                                if let Ok(resolved)", "            false => !file_type.is_symlink(),\n        }\n    }\n\n    #[cfg(not(unix))]"],
     ["if true {\n                                                if let Ok(resolved)", "            false => true,\n        }\n    }\n\n    #[cfg(not(unix))]"]),
    ("C17-buffered-epipe-propagates", "C17", S, "                if let Err(e) = write!(std::io::stdout(), \"{}\", piece) {\n                    if e.kind() == ErrorKind::BrokenPipe {\n                        return Ok(());\n                    }\n                }", "                write!(std::io::stdout(), \"{}\", piece)?;"),
    ("C17-header-epipe-propagates", "C17", S, "        if let Err(e) = self.results_writer.write_header(&mut std::io::stdout()) {\n            if e.kind() == ErrorKind::BrokenPipe {\n                return Ok(());\n            }\n        }", "        self.results_writer.write_header(&mut std::io::stdout())?;"),
    ("C19-zip-list-is-archive-list", "C19", S, "                .is_zip_archive\n                .as_ref()\n                .unwrap_or(self.default_config.is_zip_archive.as_ref().unwrap()),", "                .is_archive\n                .as_ref()\n                .unwrap_or(self.default_config.is_archive.as_ref().unwrap()),"),
    ("C19-datetime-from-now", "C19", D, "    NaiveDate::from_ymd_opt(dt.year() as i32, dt.month() as u32, dt.day() as u32)\n        .and_then(|date| date.and_hms_opt(dt.hour() as u32, dt.minute() as u32, dt.second() as u32))\n        .unwrap_or_default()", "    use chrono::Datelike;\n    Local::now().naive_local().with_year(dt.year() as i32).unwrap().with_month(dt.month() as u32).unwrap().with_day(dt.day() as u32).unwrap().with_hour(dt.hour() as u32).unwrap().with_minute(dt.minute() as u32).unwrap().with_second(dt.second() as u32).unwrap()"),
    ("C19-member-size-compressed", "C19", "src/fileinfo.rs", "size: zipped_file.size(),", "size: zipped_file.compressed_size(),"),
    ("C04-cap-wrong-bit", "C04", "src/util/capabilities.rs", "check_cap!(cap_net_raw, 13, permitted", "check_cap!(cap_net_raw, 14, permitted"),
    ("C04-cap-high-word-swapped", "C04", "src/util/capabilities.rs", "        let permitted = u32::from_le_bytes(caps[12..16].try_into().unwrap());\n        let inherited = u32::from_le_bytes(caps[16..20].try_into().unwrap());", "        let inherited = u32::from_le_bytes(caps[12..16].try_into().unwrap());\n        let permitted = u32::from_le_bytes(caps[16..20].try_into().unwrap());"),
    ("C04-has-xattrs-more-than-one", "C04", S, "let has_xattrs = xattrs.count() > 0;", "let has_xattrs = xattrs.count() > 1;"),
]


def sh(cmd, **kw):
    return subprocess.run(cmd, stdout=subprocess.PIPE, stderr=subprocess.STDOUT, **kw)


def main():
    args = sys.argv[1:]
    tests = "--tests" in args
    cases = None
    if "--cases" in args:
        cases = args[args.index("--cases") + 1]
    ids = [a for a in args if not a.startswith("--") and a != cases]
    os.makedirs(os.path.dirname(WT), exist_ok=True)
    sh(["git", "-C", "/repo", "worktree", "remove", "--force", WT])
    p = sh(["git", "-C", "/repo", "worktree", "add", "--detach", WT, "HEAD"])
    if p.returncode:
        print(p.stdout.decode())
        return 2
    results = []
    env = dict(os.environ, FSIM_REPO=WT, FSIM_CACHE=CACHE)
    try:
        for mid, prop, f, old, new in MUTANTS:
            if ids and mid not in ids:
                continue
            edits = list(zip(f, old, new)) if isinstance(f, list) else [(f, old, new)]
            saved = {}
            okp = True
            for ef, eo, en in edits:
                path = os.path.join(WT, ef)
                src = saved.get(path) or open(path).read()
                saved.setdefault(path, src)
                cur = open(path).read()
                if cur.count(eo) != 1:
                    okp = False
                    break
                open(path, "w").write(cur.replace(eo, en))
            if not okp:
                for pth, src in saved.items():
                    open(pth, "w").write(src)
                results.append((mid, prop, "PATCH-DOES-NOT-APPLY", 0))
                print(results[-1], flush=True)
                continue
            t0 = time.time()
            status = ""
            if tests:
                tp = sh(["cargo", "test", "--offline", "--quiet"], cwd=WT, env=dict(os.environ, CARGO_NET_OFFLINE="true"))
                status = "tests-pass " if tp.returncode == 0 else "TESTS-FAIL "
            cmd = [os.path.join(VERIF, "check"), prop] + (["--cases", cases] if cases else [])
            cp = sh(cmd, env=env, cwd=VERIF)
            out = cp.stdout.decode("utf-8", "replace")
            sigs = [l.split("signature=")[1].split(" ")[0] for l in out.splitlines() if "signature=" in l]
            verdict = {0: "MISSED", 1: "CAUGHT", 2: "HARNESS-ERROR"}.get(cp.returncode, "rc%d" % cp.returncode)
            if cp.returncode == 2:
                print(out[-1500:])
            results.append((mid, prop, status + verdict, round(time.time() - t0, 1), sigs[:3]))
            print(results[-1], flush=True)
            for pth, src in saved.items():
                open(pth, "w").write(src)
    finally:
        sh(["git", "-C", "/repo", "worktree", "remove", "--force", WT])
        sh(["rm", "-rf", "/tmp/fsim-mutants"])
        # the mutant runs rewrote evidence files and replays: restore from git
        sh(["git", "-C", VERIF, "checkout", "--", "evidence"])
    caught = sum(1 for r in results if "CAUGHT" in r[2])
    print("mutants: %d caught of %d" % (caught, len(results)))
    json.dump(results, open(os.path.join(VERIF, "tools", "mutants_last.json"), "w"), indent=1)
    return 0


if __name__ == "__main__":
    sys.exit(main())
