#!/usr/bin/env python3
"""Seam-completeness audit (DESIGN 9.3): run sampled cases under strace and require that every
kernel-visible access to an object of the simulated world has a matching shim event.

  A. every distinct world path seen by the kernel (open/stat/readlink/getdents... family) is mentioned by a shim event
  B. the number of read-like system calls on descriptors opened from world paths equals the number of shim read events
  C. the number of write system calls on fd 1 equals the number of shim write events that were passed on
Whitelisted: extended-attribute system calls (the xattr crate issues raw syscalls that bypass libc).
"""
import os
import random
import re
import subprocess
import sys
import urllib.parse

sys.path.insert(0, os.path.dirname(os.path.dirname(os.path.abspath(__file__))))
from fsim import core, gen  # noqa: E402
from fsim.checks import c04, c17, c19  # noqa: E402

PATHCALL = re.compile(r'^(\d+)\s+(\w+)\((?:AT_FDCWD|\d+)?,?\s*"((?:[^"\\]|\\.)*)"')
OPENRET = re.compile(r'^(\d+)\s+(open|openat)\(.*\)\s+=\s+(\d+)')
FDCALL = re.compile(r'^(\d+)\s+(read|pread64|readv|preadv|write|writev|close|getdents64)\((\d+)')


def audit(world, argv, plan, cwd=""):
    with core.Sandbox(world) as sb:
        text = core.compile_plan(plan, world, sb.root)
        rundir = sb.base
        plan_path = os.path.join(rundir, "plan")
        open(plan_path, "w").write(text)
        home = os.path.join(rundir, "home")
        os.makedirs(home, exist_ok=True)
        env = dict(core.BASE_ENV, HOME=home, TZ="UTC", LD_PRELOAD=core.SHIM, FSIM_PLAN=plan_path, FSIM_LOG=os.path.join(rundir, "log"))
        trace = os.path.join(rundir, "trace")
        with open(os.path.join(rundir, "out"), "wb") as fo, open(os.path.join(rundir, "err"), "wb") as fe:
            subprocess.run(["strace", "-f", "-qq", "-s", "4096", "-o", trace, core.BINARY] + argv, cwd=os.path.join(sb.root, cwd), env=env,
                           stdin=subprocess.DEVNULL, stdout=fo, stderr=fe, timeout=120)
        log = open(os.path.join(rundir, "log")).read().splitlines()
        mentioned = set()
        for l in log:
            for tok in l.split(" "):
                t = urllib.parse.unquote(tok)
                if t.startswith("$W"):
                    mentioned.add(os.path.normpath(sb.root + t[2:]))
                else:
                    mentioned.add(os.path.normpath(os.path.join(sb.root, t)))
                    mentioned.add(os.path.normpath(os.path.join(sb.root, cwd, t)))
        problems = []
        world_fds = {}
        kreads = kwrites = 0
        cwd_abs = os.path.join(sb.root, cwd)
        PATHCALLS = {"open", "openat", "openat2", "stat", "lstat", "newfstatat", "statx", "readlink", "readlinkat", "access", "faccessat", "faccessat2",
                     "mkdir", "unlink", "unlinkat", "rename", "renameat", "utimensat", "truncate", "statfs", "chmod", "chown", "lchown", "inotify_add_watch", "name_to_handle_at"}
        for line in open(trace, errors="replace"):
            m = PATHCALL.match(line)
            if m and m.group(2) in PATHCALLS:
                call, p = m.group(2), m.group(3)
                p = p.encode("latin-1", "replace").decode("unicode_escape", "replace").encode("latin-1", "replace").decode("utf-8", "replace")
                ap = os.path.normpath(p if p.startswith("/") else os.path.join(cwd_abs, p))
                inside = ap == sb.root or ap.startswith(sb.root + "/")
                if inside and "xattr" not in call and call not in ("execve", "chdir"):
                    # dirfd-relative names (statx(dirfd, "name")) cannot be resolved from the trace alone: accept by basename
                    # glibc's realpath() walks the components with internal readlink calls: the shim wraps realpath as a whole
                    inner_realpath = call == "readlink" and any(" realpath " in l for l in log)
                    if ap not in mentioned and not inner_realpath and not any(x.endswith("/" + os.path.basename(ap)) for x in mentioned):
                        problems.append("kernel saw %s(%r) but no shim event mentions it" % (call, ap))
                mo = OPENRET.match(line)
                if mo and inside:
                    world_fds[(mo.group(1), mo.group(3))] = ap
                continue
            m = FDCALL.match(line)
            if m:
                key = (m.group(1), m.group(3))
                call = m.group(2)
                if call == "close":
                    world_fds.pop(key, None)
                elif call in ("read", "pread64", "readv", "preadv") and key in world_fds:
                    kreads += 1
                elif call in ("write", "writev") and m.group(3) == "1":
                    kwrites += 1
        sreads = sum(1 for l in log if re.match(r"^\d+ read fd\d+ (?!urandom)", l) and "inj:fail" not in l)
        swrites = sum(1 for l in log if re.match(r"^\d+ write fd1 ", l) and "inj:epipe" not in l)
        if kreads != sreads:
            problems.append("kernel read calls on world files: %d, shim read events: %d" % (kreads, sreads))
        if kwrites != swrites:
            problems.append("kernel writes on fd 1: %d, shim write events: %d" % (kwrites, swrites))
        return problems, len(log)


def main():
    core.build(quiet=True)
    n = int(sys.argv[1]) if len(sys.argv) > 1 else 40
    rng = random.Random(4242)
    bad = 0
    events = 0
    for i in range(n):
        top = rng.choice(gen.SAFE_ROOTS)
        kind = i % 4
        if kind == 0:
            world = gen.gen_tree(rng, [top], max_entries=15, max_depth=3)
            q = "select path, size, modified, mode, user from %s %s into list" % (top, rng.choice(["bfs", "dfs"]))
        elif kind == 1:
            case = c04.CHECK.gen_content(rng, "quick")
            world, top = case["world"], case["top"]
            q = "select path, sha1, sha256, line_count, is_shebang, contains('zq7') from %s into list" % top
        elif kind == 2:
            case = c19.CHECK.gen(rng, "quick", 100 + i)
            world, top = case["world"], case["top"]
            q = "select path, size, modified from %s archives into list" % top
        else:
            world = gen.gen_tree(rng, [top], max_entries=12, max_depth=3, kinds={"file": 5, "dir": 5, "symlink": 3})
            q = "select path, abspath, is_empty from %s symlinks order by path into list" % top
        _, plan = gen.gen_env(rng, world)
        problems, nev = audit(world, [q], plan)
        events += nev
        for p in problems:
            print("AUDIT case %d (%s): %s" % (i, q, p))
        bad += bool(problems)
    print("seam audit: %d sampled runs, %d shim events, %d runs with a kernel access that bypassed the seam" % (n, events, bad))
    return 1 if bad else 0


if __name__ == "__main__":
    sys.exit(main())
