#!/usr/bin/env python3
"""Re-run every kept property-preserving change against all nine quick checks in the tree named by FSIM_REPO (a scratch
worktree or a `vp run --with-repo` snapshot, never /repo). Reports every alarm; the documented correct alarms are marked.
usage: FSIM_REPO=<worktree> tools/refactor_fast.py [name ...]"""
import glob, json, os, subprocess, sys, time
V = os.path.dirname(os.path.dirname(os.path.abspath(__file__)))
REPO = os.environ.get("FSIM_REPO")
ALL = ["C01", "C04", "C05", "C06", "C08", "C13", "C17", "C18", "C19"]
# alarms that are right (DESIGN 13.7): the refactor itself breaks a clause of a property it was not given
CORRECT = {"R18b": {"C18"}, "R30": {"C18"}, "R31": {"C01"}, "R40": {"C18"}}


def sh(cmd, **kw):
    return subprocess.run(cmd, stdout=subprocess.PIPE, stderr=subprocess.STDOUT, **kw)


def main():
    if not REPO or os.path.realpath(REPO) == "/repo":
        print("set FSIM_REPO to a scratch worktree")
        return 2
    head = sh(["git", "-C", REPO, "rev-parse", "HEAD"]).stdout.decode().strip()
    bad = []
    for d in sorted(glob.glob(os.path.join(V, "refactors", "*"))):
        name = os.path.basename(d)
        if sys.argv[1:] and name not in sys.argv[1:]:
            continue
        patch = os.path.join(d, "patch.diff")
        if not os.path.exists(patch):
            continue
        sh(["git", "-C", REPO, "checkout", "--", "."]); sh(["git", "-C", REPO, "clean", "-fdq", "src"])
        a = sh(["git", "-C", REPO, "apply", patch])
        if a.returncode:
            a = sh(["git", "-C", REPO, "apply", "--3way", patch])
            if a.returncode or b"conflict" in a.stdout.lower():
                print("%s: patch does not apply to the current tree (written before a later fix commit): skipped" % name, flush=True)
                sh(["git", "-C", REPO, "checkout", "--", "."]); sh(["git", "-C", REPO, "reset", "-q", "--hard", head]); sh(["git", "-C", REPO, "clean", "-fdq", "src"])
                continue
        t0 = time.time()
        alarms = {}
        for c in ALL:
            extra = []
            div = int(os.environ.get("REFACTOR_CASES_DIV") or 1)
            if div > 1:
                sys.path.insert(0, V)
                import importlib
                extra = ["--cases", str(max(100, importlib.import_module("fsim.checks." + c.lower()).CHECK.cases["quick"] // div))]
            cp = sh([os.path.join(V, "check"), c, "--tier", "quick"] + extra, cwd=V)
            out = cp.stdout.decode("utf-8", "replace")
            if cp.returncode:
                alarms[c] = [cp.returncode] + sorted({l.split("signature=")[1].split(" ")[0] for l in out.splitlines() if "signature=" in l and "KNOWN" not in l})[:3]
        wrong = {c: v for c, v in alarms.items() if c not in CORRECT.get(name, set())}
        print("%s: %s%s (%.0fs)" % (name, "silent" if not alarms else "alarms %s" % alarms, "" if not wrong else "  <-- UNEXPECTED", time.time() - t0), flush=True)
        if wrong:
            bad.append(name)
        sh(["git", "-C", REPO, "checkout", "--", "."]); sh(["git", "-C", REPO, "reset", "-q", "--hard", head]); sh(["git", "-C", REPO, "clean", "-fdq", "src"])
    print("refactor_fast: %d with unexpected alarms %s" % (len(bad), bad))
    return 0


if __name__ == "__main__":
    sys.exit(main())
