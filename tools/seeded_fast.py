#!/usr/bin/env python3
"""Re-run every kept seeded change (already confirmed) against the check(s) that caught it: apply the patch to the tree named by
FSIM_REPO (a scratch worktree or a `vp run --with-repo` snapshot, never /repo), run the quick check, undo. Reports any change no
longer caught.  usage: FSIM_REPO=<worktree> tools/seeded_fast.py [name ...]"""
import glob, json, os, subprocess, sys, time
V = os.path.dirname(os.path.dirname(os.path.abspath(__file__)))
REPO = os.environ.get("FSIM_REPO")
BASES = {"C08c": "d451ffb", "C04l": "47f4ce1"}


def sh(cmd, **kw):
    return subprocess.run(cmd, stdout=subprocess.PIPE, stderr=subprocess.STDOUT, **kw)


def main():
    if not REPO or os.path.realpath(REPO) == "/repo":
        print("set FSIM_REPO to a scratch worktree")
        return 2
    head = sh(["git", "-C", REPO, "rev-parse", "HEAD"]).stdout.decode().strip()
    missed = []
    for p in sorted(glob.glob(os.path.join(V, "seeded", "*", "meta.json"))):
        m = json.load(open(p))
        name = m["name"]
        if sys.argv[1:] and name not in sys.argv[1:]:
            continue
        patch = os.path.join(os.path.dirname(p), "patch.diff")
        checks = (m.get("caught_by") or [m["property"]])[:1]
        sh(["git", "-C", REPO, "checkout", "--", "."]); sh(["git", "-C", REPO, "clean", "-fdq", "src"])
        sh(["git", "-C", REPO, "checkout", "--detach", BASES.get(name, head)])
        a = sh(["git", "-C", REPO, "apply", patch])
        if a.returncode:
            print("%s: patch does not apply: %s" % (name, a.stdout.decode()[:200]), flush=True)
            missed.append(name)
            continue
        t0 = time.time()
        sigs, rc = [], None
        for c in checks:
            cp = sh([os.path.join(V, "check"), c, "--tier", "quick"], cwd=V)
            out = cp.stdout.decode("utf-8", "replace")
            rc = cp.returncode
            sigs = sorted({l.split("signature=")[1].split(" ")[0] for l in out.splitlines() if "signature=" in l and "KNOWN" not in l})
        ok = rc == 1 and sigs
        print("%s: %s by %s %s (%.0fs)" % (name, "caught" if ok else "MISSED rc=%s" % rc, checks, sigs[:2], time.time() - t0), flush=True)
        if not ok:
            missed.append(name)
    sh(["git", "-C", REPO, "checkout", "--", "."]); sh(["git", "-C", REPO, "clean", "-fdq", "src"])
    sh(["git", "-C", REPO, "checkout", "--detach", head])
    print("seeded_fast: %d missed %s" % (len(missed), missed))
    return 0


if __name__ == "__main__":
    sys.exit(main())
