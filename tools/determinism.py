#!/usr/bin/env python3
"""Determinism proof (DESIGN 9): every check is run several times on the same seeds, in fresh processes,
at different worker counts and under a different PYTHONHASHSEED; the per-case event-log signatures
(hash of the full call/object/outcome sequence of every execution) and verdicts must be identical.

usage: tools/determinism.py [cases-per-check] [check ...]
"""
import json
import os
import subprocess
import sys
import tempfile

VERIF = os.path.dirname(os.path.dirname(os.path.abspath(__file__)))
ALL = ["C01", "C04", "C05", "C06", "C08", "C13", "C17", "C18", "C19"]


def run(cid, cases, workers, hashseed, seed, out):
    env = dict(os.environ, PYTHONHASHSEED=str(hashseed), VERIF_SEED=str(seed))
    p = subprocess.run([sys.executable, os.path.join(VERIF, "check"), cid, "--cases", str(cases), "--workers", str(workers), "--sigs-out", out],
                       env=env, stdout=subprocess.PIPE, stderr=subprocess.STDOUT)
    if p.returncode == 2:
        print(p.stdout.decode()[-2000:])
        raise SystemExit("harness error in %s" % cid)
    return json.load(open(out))


def main():
    cases = int(sys.argv[1]) if len(sys.argv) > 1 else 400
    checks = sys.argv[2:] or ALL
    bad = 0
    total_cases = total_execs = 0
    tmp = tempfile.mkdtemp(prefix="fsimdet.", dir="/dev/shm")
    # evidence files are rewritten by these runs: keep the originals
    ev = os.path.join(VERIF, "evidence")
    saved = {f: open(os.path.join(ev, f)).read() for f in os.listdir(ev)} if os.path.isdir(ev) else {}
    try:
        for cid in checks:
            for seed in (11, 12):
                base = run(cid, cases, 16, 0, seed, os.path.join(tmp, "a.json"))
                for workers, hs in ((1 if cases <= 100 else 4, 0), (16, 12345), (7, 999)):
                    other = run(cid, cases, workers, hs, seed, os.path.join(tmp, "b.json"))
                    if other != base:
                        diff = [a[0] for a, b in zip(base, other) if a != b]
                        print("NONDETERMINISM %s seed=%d workers=%d PYTHONHASHSEED=%d: cases %s differ" % (cid, seed, workers, hs, diff[:10]))
                        bad += 1
                total_cases += len(base)
                total_execs += sum(len(b[1]) for b in base)
                print("%s seed=%d: %d cases, %d executions identical across 4 runs (workers 16/4/16/7, PYTHONHASHSEED 0/0/12345/999)" % (cid, seed, len(base), sum(len(b[1]) for b in base)), flush=True)
    finally:
        for f, t in saved.items():
            open(os.path.join(ev, f), "w").write(t)
        subprocess.run(["rm", "-rf", tmp])
    print("determinism: %d cases / %d executions compared 4 ways, %d mismatching runs" % (total_cases, total_execs, bad))
    return 1 if bad else 0


if __name__ == "__main__":
    sys.exit(main())
