"""World generation, the reference walk, environment (E) dimensions, model validation."""
import os
import stat as statmod

SAFE_ROOTS = ["d1", "r2", "t3x", "w4", "q5_a", "z6", "k7b", "m8", "p9"]
EXTS = ["txt", "rs", "c", "zip", "jpg", "MD", "tar.gz", "py", "", "", "log", "o"]
ADVERSARIAL = ["with space", " lead", "trail ", "tab\there", "new\nline", "quo'te", 'dq"x', "unié中", "semi;colon", "amp&x",
               "star*x", "qm?", "br[a]", "cur{l}", "pct%41", "back\\slash", "comma,x", "dash-x", "-dash", "eq=x", "hash#", "(paren)",
               "dollar$", "bang!", "tilde~", "at@", "plus+", "..dots", "...", ".hidden", ".h.txt", "a.b.c", "UPPER.TXT", "caret^", "pipe|x", "lt<gt>"]


# names that look like path or list syntax: what depth arithmetic, key joining and splitting code may trip over
SYNTAX_NAMES = ["a\\b", "\\", "x\\y\\z", "a,b", ",", "c,d,e", "a:b", "a;b", "..a", "a..", "a b", "a=b", "a|b", "[x] y", "%2F", "a\tb", "~", "-", "*", "{}"]


NONUTF8 = ["\udcfe", "\udcff", "\udc80", "x\udcfe", "x\udcff", "\udcfe.txt", "\udcff.txt"]


def rand_name(rng, adversarial=0.15, syntax=False, nonutf8=0.0):
    if nonutf8 and rng.random() < nonutf8:
        # file names are byte strings: invalid UTF-8 is legal (carried as surrogate escapes in the world spec)
        return rng.choice(NONUTF8)
    if rng.random() < adversarial:
        if syntax and rng.random() < 0.6:
            return rng.choice(SYNTAX_NAMES) + rng.choice(["", "", "1", ".txt"])
        return rng.choice(ADVERSARIAL)
    n = rng.randint(1, 6)
    s = "".join(rng.choice("abcdefghijklmnopqrstuvwxyz0123456789_") for _ in range(n))
    e = rng.choice(EXTS)
    if rng.random() < 0.1:
        s = "." + s
    return s + ("." + e if e else "")


DEFAULT_KINDS = {"file": 10, "dir": 5, "symlink": 1.5, "fifo": 0.4, "sock": 0.3, "empty_dir": 0}


def gen_tree(rng, roots, max_entries=30, max_depth=4, kinds=None, adversarial=0.15, contents=None, symlink_targets=None, nonutf8=0.0):
    """Random tree below each of `roots` (top-level directory names). Returns {"nodes": [...]} parents first."""
    kinds = dict(DEFAULT_KINDS if kinds is None else kinds)
    nodes = []
    dirs = []  # (path, level)
    for r in roots:
        nodes.append({"path": r, "type": "dir"})
        dirs.append((r, 0))
    used = {r: set() for r in roots}
    n = rng.randint(0, max_entries)
    shape = rng.choice(["wide", "deep", "mixed", "mixed"])
    kk = list(kinds.items())
    for _ in range(n):
        if shape == "deep":
            parent, lvl = dirs[-1] if rng.random() < 0.6 else rng.choice(dirs)
        elif shape == "wide":
            parent, lvl = rng.choice(dirs[:max(1, len(dirs) // 2 + 1)])
        else:
            parent, lvl = rng.choice(dirs)
        t = rng.choices([k for k, _ in kk], [w for _, w in kk])[0]
        # directories get adversarial (path-syntax-like) names more often: they are what paths are built from
        name = rand_name(rng, min(0.7, adversarial * 2.5), syntax=True, nonutf8=nonutf8) if t == "dir" else rand_name(rng, adversarial, syntax=rng.random() < 0.3, nonutf8=nonutf8)
        if name in used[parent] or name in (".", ".."):
            continue
        used[parent].add(name)
        path = parent + "/" + name
        if t == "dir" and lvl + 1 >= max_depth:
            t = "file"
        if t == "dir":
            nodes.append({"path": path, "type": "dir"})
            dirs.append((path, lvl + 1))
            used[path] = set()
        elif t == "file":
            node = {"path": path, "type": "file"}
            if contents is not None:
                node["content"] = contents(rng)
            else:
                node["content"] = "x" * rng.choice([0, 0, 1, 2, 3, 9, 10, 11, 100, 1000])
            nodes.append(node)
        elif t == "symlink":
            if symlink_targets is not None:
                target = symlink_targets(rng, path, nodes)
            else:
                c = rng.random()
                others = [x for x in nodes if x["path"] != path]
                if c < 0.4 and others:
                    # relative link to an existing node (file or dir), spelled relative to the link's directory
                    tgt = rng.choice(others)["path"]
                    target = os.path.relpath(tgt, parent)
                elif c < 0.6:
                    target = "nowhere/" + rand_name(rng, 0)
                elif c < 0.8:
                    target = "."
                else:
                    target = ".."
            nodes.append({"path": path, "type": "symlink", "target": target})
        else:
            nodes.append({"path": path, "type": t})
    return {"nodes": nodes}


ZIPLIKE = (".zip", ".jar", ".war", ".ear")


def zipify(rng, world, keep=(), p=0.35):
    """For runs with the `archives` option: some directories get archive-like names (an exploded app.war/), and no
    ordinary file keeps one (a non-archive with an archive name is a legitimately reportable oddity)."""
    ren = {}
    allmap = {}
    taken = {n["path"] for n in world["nodes"]}
    for n in world["nodes"]:
        path = n["path"]
        par, _, name = path.rpartition("/")
        par = ren.get(par, par)
        new = name
        if "/" in path and path not in keep:
            if n["type"] == "dir" and rng.random() < p and not any(0xDC80 <= ord(c) <= 0xDCFF for c in name):
                new = name + rng.choice(ZIPLIKE + (".ZIP",))
            elif n["type"] != "dir" and name.lower().endswith(ZIPLIKE):
                new = name[:-1] + "_"
        newpath = (par + "/" + new) if par else new
        if new != name and newpath in taken:
            newpath = (par + "/" + name) if par else name
        taken.add(newpath)
        if n["type"] == "dir":
            ren[path] = newpath
        allmap[path] = newpath
        n["path"] = newpath
    for n in world["nodes"]:
        if n["type"] == "hardlink":
            n["target"] = allmap.get(n["target"], n["target"])
    return allmap


def children_map(world):
    ch = {"": []}
    for n in world["nodes"]:
        if n["type"] == "dir":
            ch.setdefault(n["path"], [])
    for n in world["nodes"]:
        parent = os.path.dirname(n["path"])
        ch.setdefault(parent, []).append(n)
    return ch


def node_map(world):
    return {n["path"]: n for n in world["nodes"]}


def ref_walk(world, root, skip_dirs=()):
    """Reference walk: [(relpath below root, node, level)] for everything below `root`
    (no link following). Directories in skip_dirs are listed but not entered."""
    ch = children_map(world)
    out = []
    stack = [(root, 1)]
    while stack:
        d, lvl = stack.pop()
        for n in ch.get(d, []):
            rel = n["path"][len(root) + 1:] if root else n["path"]
            out.append((rel, n, lvl))
            if n["type"] == "dir" and n["path"] not in skip_dirs:
                stack.append((n["path"], lvl + 1))
    return out


def in_window(level, mind, maxd):
    return (mind == 0 or level >= mind) and (maxd == 0 or level <= maxd)


def validate_model(world, root_dir):
    """Cross-check the world spec against the materialised tree (model validation, DESIGN 4.3)."""
    from .core import HarnessError
    want = {}
    for n in world["nodes"]:
        want[n["path"]] = n["type"]
    got = {}
    for dirpath, dirnames, filenames in os.walk(root_dir, followlinks=False):
        for name in dirnames + filenames:
            full = os.path.join(dirpath, name)
            rel = os.path.relpath(full, root_dir)
            st = os.lstat(full)
            m = st.st_mode
            t = ("dir" if statmod.S_ISDIR(m) else "symlink" if statmod.S_ISLNK(m) else "fifo" if statmod.S_ISFIFO(m) else
                 "sock" if statmod.S_ISSOCK(m) else "chr" if statmod.S_ISCHR(m) else "blk" if statmod.S_ISBLK(m) else "file")
            got[rel] = t
    for p, t in want.items():
        tt = "file" if t == "hardlink" else t
        if got.get(p) != tt:
            raise HarnessError("model validation: %r is %r on disk, %r in the model" % (p, got.get(p), tt))
    for p in got:
        if p not in want:
            raise HarnessError("model validation: %r on disk but not in the model" % p)


# ----------------------------------------------------------------------------- environment dimensions

ORDER_CLASSES = ["sorted", "random", "reversed", "dirs_first", "dirs_last", "random", "random"]


def gen_orders(rng, world, cls=None, key=None):
    """Arrival order of every directory stream. Returns (class name, {dir: [names]})."""
    cls = cls or rng.choice(ORDER_CLASSES)
    ch = children_map(world)
    orders = {}
    if cls == "sorted":
        return cls, {}
    for d, kids in ch.items():
        names = sorted(os.path.basename(k["path"]) for k in kids)
        if len(names) < 2:
            continue
        kid = {os.path.basename(k["path"]): k for k in kids}
        if cls == "random":
            rng.shuffle(names)
        elif cls == "reversed":
            names.reverse()
        elif cls == "dirs_first":
            names.sort(key=lambda x: (kid[x]["type"] != "dir", x))
        elif cls == "dirs_last":
            names.sort(key=lambda x: (kid[x]["type"] == "dir", x))
        elif cls == "key_asc" and key:
            names.sort(key=lambda x: key(kid[x]))
        elif cls == "key_desc" and key:
            names.sort(key=lambda x: key(kid[x]), reverse=True)
        orders[d] = names
    return cls, orders


def gen_env(rng, world, allow_dtype=True, allow_ino=True):
    """Draw a fault-free environment E: arrival orders, d_type, inode renumbering, entropy."""
    plan = {}
    cls, orders = gen_orders(rng, world)
    if orders:
        plan["order"] = orders
    ch = children_map(world)
    if allow_dtype and rng.random() < 0.3:
        dirs = sorted(ch.keys())
        plan["dtype_unknown"] = [d for d in dirs if rng.random() < 0.6] or dirs[:1]
    if allow_ino and rng.random() < 0.4:
        base = rng.choice([3, 1000, 2 ** 32 + 5, 2 ** 40])
        paths = [n["path"] for n in world["nodes"] if n["type"] != "hardlink"]
        perm = list(range(len(paths)))
        rng.shuffle(perm)
        plan["stat"] = {p: {"ino": base + i} for p, i in zip(paths, perm)}
    plan["entropy"] = rng.getrandbits(48)
    plan["clock"] = [1700000000 * 10 ** 9, 0]
    if rng.random() < 0.12:
        # the consumer of stdout accepts fewer bytes than offered (legal for any write(2)): no property may depend on it
        plan["out_accept"] = {"cycle": True, "sizes": rng.choice([[1], [7], [64, 3], [500], [1000, 24, 1], [rng.randint(1, 2000) for _ in range(3)]])}
    if rng.random() < 0.08:
        # the user's configuration file switches defaults that must change nothing in a world without ignore files
        opts = rng.sample(["no_color = true", "no_color = false", "gitignore = true", "hgignore = true", "dockerignore = true", "gitignore = false",
                           "check_for_updates = false"], rng.choice([1, 2, 3]))
        if not ("no_color = true" in opts and "no_color = false" in opts) and not ("gitignore = true" in opts and "gitignore = false" in opts):
            plan["config"] = "\n".join(opts) + "\n"
    return cls, plan


def view_world(world, limit=60):
    out = []
    for n in world["nodes"][:limit]:
        s = n["path"] + {"dir": "/", "symlink": " -> " + n.get("target", ""), "fifo": " |", "sock": " =", "file": "", "hardlink": " => " + n.get("target", ""), "chr": " c", "blk": " b"}[n["type"]]
        if n["type"] == "file":
            if "zip" in n:
                s += " [zip %d members]" % len(n["zip"].get("members", []))
            else:
                s += (" (%d bytes)" % len(n["content"])) if "content" in n else (" (pattern %r x %d bytes)" % (n["pat"]["unit"][:12], n["pat"]["size"])) if "pat" in n else ""
        out.append(s)
    if len(world["nodes"]) > limit:
        out.append("... %d more" % (len(world["nodes"]) - limit))
    return out


_RESERVED = None


def reserved_words():
    """Words that fselect's lexer/parser may take for a column, function or keyword even when quoted
    (a C02 matter, not claimed here): literals in generated conditions avoid them."""
    global _RESERVED
    if _RESERVED is None:
        import re
        from .core import REPO
        words = {"log", "ln", "exp", "abs", "bin", "hex", "oct", "day", "month", "year", "dow", "min", "max", "avg", "sum", "count", "size", "name", "path", "ext", "dir",
                 "mode", "user", "group", "uid", "gid", "true", "false", "and", "or", "not", "from", "where", "order", "by", "limit", "into", "select", "like", "between"}
        for f in ("field.rs", "function.rs", "lexer.rs", "operators.rs", "query.rs"):
            try:
                with open(os.path.join(REPO, "src", f)) as fh:
                    words |= set(re.findall(r'"([a-z0-9_]+)"', fh.read()))
            except OSError:
                pass
        _RESERVED = words
    return _RESERVED
