"""C01 — traversal is exact: every entry in the depth window, once, nothing else; bfs/dfs order clauses."""
import collections
import copy
import os

from .. import gen
from ..core import CaseInvalid
from ..harness import Violation

PROP = "C01"


def spell_root(sp, top, sbroot, cwd=""):
    kind = sp["kind"]
    if kind == "dot":
        if cwd != top:
            raise CaseInvalid("dot spelling needs cwd = root")
        return "."
    if kind == "updir":
        if not cwd:
            raise CaseInvalid("updir spelling needs a cwd")
        return os.path.relpath(top, cwd)
    if kind == "default":
        return "."
    if kind == "rel":
        return top
    if kind == "dotrel":
        return "./" + top
    if kind == "abs":
        return sbroot + "/" + top
    if kind == "trail":
        return top + "/"
    raise CaseInvalid("root spelling")


def printed(sp, rel):
    """The path text fselect prints for an entry `rel` below a root spelled `sp` (PathBuf::join)."""
    return sp + rel if sp.endswith("/") else sp + "/" + rel


def quote_root(s):
    """Roots that are not plain words are passed in single quotes (the form the manual shows for paths with spaces)."""
    import re
    if re.fullmatch(r"[A-Za-z0-9_./-]+", s):
        return s
    return "'" + s + "'"


class Check:
    id = PROP
    level = "exploration"
    cases = {"quick": 12000, "thorough": 150000}
    rule = ("case = (random tree with files/dirs/symlinks/FIFOs/sockets/dot-files, 1-3 disjoint roots spelled default/relative/./relative/absolute/nested, "
            "per-root mindepth/maxdepth in 0..depth+2, bfs/dfs) x environment E = (arrival order class of every directory stream, d_type unknown per stream, "
            "inode renumbering incl. a second device whose inode numbers collide with the first, entropy seed); each case is run as given and with bfs/dfs flipped. "
            "An execution is non-trivial when a non-default environment choice was delivered to fselect (custom order on an opened directory, DT_UNKNOWN entry, "
            "renumbered inode); distinct = distinct event-log signature (hash of the call/object/outcome sequence).")
    assumptions = ["no faults are injected here (C17 does that)", "queries are one quoted argument; root names are [a-z0-9_]+",
                   "names are valid UTF-8 without NUL or '/'", "roots are disjoint directories"]

    def gen_relink(self, rng):
        """A root given through a symbolic link that somebody re-points between two queries of one interactive session."""
        def content(r):
            return "x" * r.choice([0, 1, 5])
        world = gen.gen_tree(rng, ["stv1", "stv2"], max_entries=rng.choice([4, 8, 14]), max_depth=rng.choice([2, 3, 4]), kinds={"file": 6, "dir": 5}, adversarial=0, contents=content)
        # the two targets sit at different nesting levels: store/rel/<v1> and store/<v2>
        nodes = [{"path": "store", "type": "dir"}, {"path": "store/rel", "type": "dir"}]
        for n in world["nodes"]:
            n = dict(n)
            n["path"] = ("store/rel/" + n["path"]) if n["path"].split("/")[0] == "stv1" else ("store/" + n["path"])
            nodes.append(n)
        nodes.append({"path": "cur", "type": "symlink", "target": "store/rel/stv1"})
        nodes.append({"path": "cur.next", "type": "symlink", "target": "store/stv2"})
        nodes.append({"path": "trig", "type": "dir"})
        nodes.append({"path": "trig/trigfile", "type": "file", "content": ""})
        maxlvl = max(n["path"].count("/") for n in nodes)
        win = lambda: {"mind": rng.choice([0, 0, 1, 2, 3]), "maxd": rng.choice([0, 1, 2, 3, rng.randint(1, maxlvl)]), "mode": rng.choice(["bfs", "dfs"])}
        _, plan = gen.gen_env(rng, {"nodes": nodes})
        plan.pop("nofile", None)
        return {"sub": "relink", "world": {"nodes": nodes}, "plan": plan, "w1": win(), "w2": win(), "sp": rng.choice(["cur", "./cur", "cur/"])}

    def eval_relink(self, case, ctx):
        world = case["world"]
        viols = []

        def clause(sp, w):
            s = sp
            if w["mind"]:
                s += " mindepth %d" % w["mind"]
            if w["maxd"]:
                s += " maxdepth %d" % w["maxd"]
            return s + " " + w["mode"]

        def want(tree_top, w, col):
            out = collections.Counter()
            for rel, node, lvl in gen.ref_walk(world, tree_top):
                if gen.in_window(lvl, w["mind"], w["maxd"]):
                    out[(rel.rsplit("/", 1)[-1] if col == "name" else printed(case["sp"], rel)).encode("utf-8")] += 1
            return out
        q1 = "select name from %s into list" % clause(case["sp"], case["w1"])
        q2 = "select path from %s into list" % clause(case["sp"], case["w2"])
        with ctx.sandbox(world) as sb:
            gen.validate_model(world, sb.root)
            plan = dict(case["plan"])
            # between the two queries a third one looks at an unrelated directory; while it runs, the link is re-pointed
            # (rename of the prepared cur.next over cur) - so neither query about `cur` races with the change
            plan["mutate"] = [{"call": "opendir", "path": "trig", "nth": 1, "action": "promote", "target": "cur"}]
            plan["budget"] = 4000 + 400 * len(world["nodes"])
            rs = sb.run(["-i"], plan=plan, stdin_text=q1 + "\nselect name from trig into list\n" + q2 + "\nexit\n")
            if len(ctx.samples) < 3:
                ctx.samples.append({"argv": ["-i"], "stdin": [q1, q2], "outcome": rs.summary()})
            if rs.sim or rs.signal is not None or rs.status not in (0, 1):
                return [Violation(PROP, "C01.session", ["C01.session", "abnormal_end", "relink"], {"queries": [q1, q2], "outcome": rs.summary()})]
            if not any("inj:mutate" in l for l in rs.log):
                ctx.metric("relink_not_reached")
                return viols
            cells = [c for c in rs.stdout.split(b"\0") if c]
            got1 = collections.Counter(c for c in cells if b"/" not in c) - collections.Counter([b"trigfile"])
            got2 = collections.Counter(c for c in cells if b"/" in c)
            w1, w2 = want("store/rel/stv1", case["w1"], "name"), want("store/stv2", case["w2"], "path")
            if got1 != w1:
                viols.append(Violation(PROP, "C01.session", ["C01.session", "first_query", "relink"], {"queries": [q1, q2], "missing": [x.decode() for x in (w1 - got1)][:5], "extra": [x.decode() for x in (got1 - w1)][:5]}))
            elif got2 != w2:
                viols.append(Violation(PROP, "C01.session", ["C01.session", "query_after_the_link_was_re-pointed", "relink"],
                                       {"queries": [q1, q2], "missing": [x.decode() for x in (w2 - got2)][:5], "extra": [x.decode() for x in (got2 - w2)][:5]}))
            ctx.metric("relink_sessions")
        return viols

    def gen(self, rng, tier, index):
        if rng.random() < 0.02:
            return self.gen_relink(rng)
        nroots = rng.choice([1, 1, 1, 2, 2, 3])
        tops = rng.sample(gen.SAFE_ROOTS, nroots)
        rx = None
        if rng.random() < 0.1:
            # roots given as a pattern (`rx`): every real directory whose name matches is a root of its own
            stem = rng.choice(["rq", "zt", "m_"])
            tops = [stem + str(d) for d in rng.sample(range(10), nroots)]
            rx = {"pattern": stem + rng.choice(["[0-9]", "[0-9]", "[0-9]*", "?[0-9]", "[0-9]?"]), "stem": stem}
        big = tier == "thorough" and rng.random() < 0.1
        world = gen.gen_tree(rng, tops, max_entries=rng.choice([3, 8, 15, 30, 45]) if not big else rng.choice([120, 250]), max_depth=rng.choice([2, 3, 5, 6]) if not big else rng.choice([3, 10]),
                             kinds={"file": 10, "dir": 5, "symlink": 1.5, "fifo": 0.4, "sock": 0.3, "chr": 0.2, "blk": 0.2},
                             adversarial=rng.choice([0, 0.15, 0.5]), nonutf8=rng.choice([0, 0, 0, 0.2]))
        if rx:
            stem = rx["stem"]
            free = [str(d) for d in range(10) if stem + str(d) not in tops]
            rng.shuffle(free)
            # entries next to the roots whose names match as well, or nearly: only real directories become roots
            world["nodes"].append({"path": stem + free[0], "type": "file", "content": "x"})
            world["nodes"].append({"path": stem + free[1], "type": "symlink", "target": tops[0]})
            world["nodes"].append({"path": stem + free[2], "type": "symlink", "target": "nowhere"})
            world["nodes"].append({"path": stem + "10", "type": "dir"})
            world["nodes"].append({"path": stem + "10/in10", "type": "file", "content": ""})
            world["nodes"].append({"path": "x" + tops[0], "type": "dir"})
            world["nodes"].append({"path": "x" + tops[0] + "/inx", "type": "file", "content": ""})
        # the same rows through another output format (its writer sees long rows and multi-byte text in other chunk sizes)
        fmt = rng.choice([None] * 8 + ["csv", "json"])
        if rng.random() < (0.3 if fmt else 0.04):
            # a chain of directories with long (multi-byte) names: rows of 500 .. 1200 bytes
            base_ = tops[0]
            for lv in range(rng.choice([2, 3, 4])):
                ch = rng.choice(["a", "\u00e9", "\u65e5", "\U0001f600", "\u00fc"])
                nm_ = ch * (rng.randint(120, 240) // len(ch.encode("utf-8")))
                base_ = base_ + "/" + nm_
                world["nodes"].append({"path": base_, "type": "dir"})
                world["nodes"].append({"path": base_ + "/f%d" % lv, "type": "file", "content": "x"})
        if rng.random() < 0.03:
            # a chain of directories far deeper than any tree the generator grows, with something at the bottom and on the way
            base_ = tops[-1] + "/deep_chain"
            if any(n["path"] == base_ for n in world["nodes"]):
                base_ += "_"
            world["nodes"].append({"path": base_, "type": "dir"})
            for lv in range(rng.choice([40, 64, 100])):
                base_ = base_ + "/" + rng.choice(["n", "dd", "x%d" % lv])
                world["nodes"].append({"path": base_, "type": "dir"})
                if lv % 16 == 7:
                    world["nodes"].append({"path": base_ + "/mid%d" % lv, "type": "file", "content": ""})
            world["nodes"].append({"path": base_ + "/bottom", "type": "file", "content": "b"})
        if rng.random() < 0.002:
            # one directory with thousands of entries
            d_ = tops[0] + "/crowd"
            if any(n["path"] == d_ for n in world["nodes"]):
                d_ += "_"
            world["nodes"].append({"path": d_, "type": "dir"})
            for i in range(rng.choice([1500, 3000, 5000])):
                world["nodes"].append({"path": "%s/e%05d" % (d_, i), "type": "dir" if i % 97 == 0 else "file", **({} if i % 97 == 0 else {"content": ""})})
        dirs = [n["path"] for n in world["nodes"] if n["type"] == "dir"]
        roots = []
        maxlvl = max([n["path"].count("/") for n in world["nodes"]] + [1])
        single_default = nroots == 1 and rng.random() < 0.3 and not rx
        for t in tops:
            r = {"top": t}
            if single_default:
                r["sp"] = {"kind": "default"}
            else:
                r["sp"] = {"kind": rng.choice(["rel", "rel", "dotrel", "abs", "trail"])}
                # nested root: a sub-directory of the top; names that are not plain words are quoted in the query
                subs = [d for d in dirs if d.startswith(t + "/") and not any(c in d for c in "'\"\\\n\t`") and not any(0xDC80 <= ord(c) <= 0xDCFF for c in d)
                        and not d.split("/")[-1][0].isdigit() and d == d.strip() and "  " not in d]
                if subs and rng.random() < 0.25:
                    r["top"] = rng.choice(subs)
            r["mind"] = rng.choice([0, 0, 0, 1, 2, 3, rng.randint(0, maxlvl + 2)])
            r["maxd"] = rng.choice([0, 0, 0, 1, 2, 3, rng.randint(0, maxlvl + 2)])
            if rng.random() < 0.04:
                # the largest numbers the option accepts: no window border anywhere near
                r[rng.choice(["mind", "maxd"])] = rng.choice([2 ** 31 - 1, 2 ** 31, 2 ** 32 - 1])
            r["maxword"] = rng.choice(["maxdepth", "depth"])
            r["mode"] = rng.choice(["", "bfs", "dfs", "dfs"])
            r["ign"] = rng.choice(["", "", "", "", "hg", "docker", "git", "nogit nohg", "archives", "archives"])  # no ignore file, no archive exists: must change nothing
            if single_default:
                r["mind"] = r["maxd"] = 0
                r["mode"] = ""
                r["ign"] = ""
            roots.append(r)
        if rx:
            t0 = dict(roots[0], top=None)
            t0["sp"] = {"kind": rng.choice(["rel", "rel", "dotrel", "abs", "trail"])}
            t0["mode"] = t0["mode"] or "bfs"
            rx["template"] = t0
            roots = []
        if any("archives" in r.get("ign", "") for r in roots) or (rx and "archives" in rx["template"]["ign"]):
            moved = gen.zipify(rng, world, keep=set(tops))
            for r in roots:
                r["top"] = moved.get(r["top"], r["top"])
            dirs = [n["path"] for n in world["nodes"] if n["type"] == "dir"]
        cwd = ""
        if not rx and not single_default and rng.random() < 0.2 and "/" not in roots[0]["top"]:
            cwd = roots[0]["top"]
            roots[0]["sp"] = {"kind": "dot"}
            for r in roots[1:]:
                r["sp"] = {"kind": rng.choice(["updir", "abs"])}
        cls, plan = gen.gen_env(rng, world)
        deepest = max(n["path"].count("/") for n in world["nodes"])
        if deepest <= 12 and rng.random() < 0.08:
            # a small descriptor table: a walk needs one open directory at a time in bfs and one per nesting level in dfs,
            # however many directories wait to be visited
            plan["nofile"] = rng.choice([32, 48, 64])
            if rng.random() < 0.4 and not any(n["path"] == tops[0] + "/many" for n in world["nodes"]):
                d_ = tops[0] + "/many"
                world["nodes"].append({"path": d_, "type": "dir"})
                for i in range(2 * plan["nofile"] + rng.randint(0, 20)):
                    world["nodes"].append({"path": "%s/s%03d" % (d_, i), "type": "dir"})
                    world["nodes"].append({"path": "%s/s%03d/in" % (d_, i), "type": "file", "content": ""})
                    if i % 3 != 2:
                        # ... most with a sub-directory of their own (whatever is queued for it must not pin its parent open)
                        world["nodes"].append({"path": "%s/s%03d/sub" % (d_, i), "type": "dir"})
                        world["nodes"].append({"path": "%s/s%03d/sub/f" % (d_, i), "type": "file", "content": ""})
                nf = plan["nofile"]
                cls, plan = gen.gen_env(rng, world)
                plan["nofile"] = nf
        if rng.random() < 0.2:
            # link counts of directories as other file systems report them (1 on btrfs/FUSE, 2 on CIFS/iso9660, anything on overlays)
            v = rng.choice([1, 2, 2, 3, 7])
            for n in world["nodes"]:
                if n["type"] == "dir" and rng.random() < 0.8:
                    plan.setdefault("stat", {}).setdefault(n["path"], {})["nlink"] = v
        multidev = False
        if rng.random() < 0.25 and len(dirs) >= 2:
            # a second device: one sub-tree (or a whole root) reports another st_dev and inode numbers
            # that collide with directories/links of the first device
            multidev = True
            sub = rng.choice(dirs)
            inside = [n["path"] for n in world["nodes"] if n["path"] == sub or n["path"].startswith(sub + "/")]
            outside = [n["path"] for n in world["nodes"] if n["path"] not in set(inside)]
            st = {}
            for i, p in enumerate(outside):
                st[p] = {"ino": 100 + i}
            # inode numbers are unique per device: the second device draws its numbers without
            # replacement, mostly from the numbers already used on the first device
            pool = [100 + i for i in range(len(outside))]
            pool_all = list(pool)
            rng.shuffle(pool)
            for i, p in enumerate(inside):
                if pool and rng.random() < 0.8:
                    st[p] = {"ino": pool.pop(), "dev": 99}
                else:
                    st[p] = {"ino": 5000 + i, "dev": 99}
            # the top of the second device is a mount point: its d_ino (in the parent's stream) is the covered directory's number
            st.setdefault(sub, {})["dino"] = rng.choice(pool_all) if pool_all else 777
            plan["stat"] = st
        return {"world": world, "roots": roots, "rx": rx, "fmt": fmt, "session": rng.random() < 0.05, "plan": plan, "order_class": cls, "multidev": multidev, "cwd": cwd,
                "cwd_default": single_default, "select_word": rng.choice(["select ", ""]),
                # sometimes an attribute column rides along (its per-entry cache must not leak into the walk)
                "extra_col": rng.choice(["", "", "", "size", "is_dir", "mode", "is_empty"])}

    def sample_view(self, case):
        c = dict(case)
        c["world"] = gen.view_world(case["world"])
        return c

    def shrinks(self, case):
        if case.get("sub") == "relink":
            for w in ("w1", "w2"):
                for k, v in (("mind", 0), ("maxd", 0), ("mode", "bfs")):
                    if case[w][k] != v:
                        c = copy.deepcopy(case)
                        c[w][k] = v
                        yield c
            return
        if case.get("extra_col"):
            c = copy.deepcopy(case)
            c["extra_col"] = ""
            yield c
        if case.get("fmt"):
            c = copy.deepcopy(case)
            c["fmt"] = None
            yield c
        if case.get("session"):
            c = copy.deepcopy(case)
            c["session"] = False
            yield c
        if case.get("rx"):
            t = case["rx"]["template"]
            for k, v in (("mind", 0), ("maxd", 0), ("ign", "")):
                if t.get(k, v) != v:
                    c = copy.deepcopy(case)
                    c["rx"]["template"][k] = v
                    yield c
        for i, r in enumerate(case["roots"]):
            if len(case["roots"]) > 1:
                c = copy.deepcopy(case)
                del c["roots"][i]
                yield c
            for k, v in (("mind", 0), ("maxd", 0), ("mode", ""), ("ign", "")):
                if r.get(k, v) != v:
                    c = copy.deepcopy(case)
                    c["roots"][i][k] = v
                    yield c
            if r["sp"]["kind"] not in ("rel", "default") and not case.get("cwd"):
                c = copy.deepcopy(case)
                c["roots"][i]["sp"] = {"kind": "rel"}
                yield c
        if case.get("cwd"):
            c = copy.deepcopy(case)
            c["cwd"] = ""
            for r in c["roots"]:
                r["sp"] = {"kind": "rel"}
            yield c

    @staticmethod
    def roots_of(case):
        """The roots the query denotes: as listed, or - for a pattern root - every top-level real directory whose name matches."""
        rx = case.get("rx")
        if not rx:
            return case["roots"]
        import re
        pat = re.compile(rx["pattern"])
        out = []
        for n in case["world"]["nodes"]:
            if "/" not in n["path"] and n["type"] == "dir" and pat.fullmatch(n["path"]):
                out.append(dict(rx["template"], top=n["path"]))
        return out

    def query(self, case, sbroot, flip=False):
        parts = []
        if case.get("rx"):
            r = case["rx"]["template"]
            pat = case["rx"]["pattern"]
            s = {"rel": pat, "dotrel": "./" + pat, "abs": sbroot + "/" + pat, "trail": pat + "/"}[r["sp"]["kind"]]
            s = "'" + s + "'"
            if r["mind"]:
                s += " mindepth %d" % r["mind"]
            if r["maxd"]:
                s += " %s %d" % (r.get("maxword", "maxdepth"), r["maxd"])
            s += " " + self.mode_of(r, flip)
            if r.get("ign"):
                s += " " + r["ign"]
            parts.append(s + " rx")
        for r in ([] if case.get("rx") else case["roots"]):
            if r["sp"]["kind"] == "default":
                continue
            s = quote_root(spell_root(r["sp"], r["top"], sbroot, case.get("cwd", "")))
            if r["mind"]:
                s += " mindepth %d" % r["mind"]
            if r["maxd"]:
                s += " %s %d" % (r.get("maxword", "maxdepth"), r["maxd"])
            mode = self.mode_of(r, flip)
            if mode != "bfs" or r["mode"] == "bfs" or flip:
                s += " " + mode
            if r.get("ign"):
                s += " " + r["ign"]
            parts.append(s)
        q = case.get("select_word", "") + "path" + ((", " + case["extra_col"]) if case.get("extra_col") else "")
        if parts:
            q += " from " + ", ".join(parts)
        return q + " into " + (case.get("fmt") or "list")

    @staticmethod
    def parse_rows(case, res):
        """First column of every row, as bytes; None when the stream is not well-formed in the requested format."""
        fmt = case.get("fmt")
        ncols = 2 if case.get("extra_col") else 1
        if not fmt:
            return [r[0] for r in res.rows(ncols)]
        import csv, io, json
        try:
            text = res.stdout.decode("utf-8")
            if fmt == "csv":
                recs = list(csv.reader(io.StringIO(text, newline="")))
                if any(len(r) != ncols for r in recs):
                    return None
                return [r[0].encode("utf-8") for r in recs]
            v = json.loads(text)
            if not isinstance(v, list) or any(not isinstance(x, dict) for x in v):
                return None
            out = []
            for x in v:
                ks = [k for k in x if k.lower() == "path"]  # how the key is capitalised is the formatter's business
                if len(ks) != 1 or not isinstance(x[ks[0]], str):
                    return None
                out.append(x[ks[0]].encode("utf-8"))
            return out
        except ValueError:
            return None

    @staticmethod
    def mode_of(r, flip):
        m = r["mode"] or "bfs"
        if r["sp"]["kind"] == "default":
            return "bfs"
        if flip:
            m = "dfs" if m == "bfs" else "bfs"
        return m

    def evaluate(self, case, ctx):
        if case.get("sub") == "relink":
            return self.eval_relink(case, ctx)
        world = case["world"]
        nm = gen.node_map(world)
        if case.get("rx"):
            case = dict(case, roots=self.roots_of(case))
            if not case["roots"]:
                raise CaseInvalid("pattern matches no directory")
        for r in case["roots"]:
            if r["top"] not in nm or nm[r["top"]]["type"] != "dir":
                raise CaseInvalid("root missing")
        if case["roots"][0]["sp"]["kind"] == "default" and len(case["roots"]) != 1:
            raise CaseInvalid("default root must be alone")
        tops = [r["top"] for r in case["roots"]]
        for a in tops:
            for b in tops:
                if a != b and (a + "/").startswith(b + "/"):
                    raise CaseInvalid("roots not disjoint")
        if len(set(tops)) != len(tops):
            raise CaseInvalid("duplicate root")
        if case["roots"][0]["sp"]["kind"] == "default":
            case = copy.deepcopy(case)
            case["roots"][0]["mind"] = case["roots"][0]["maxd"] = 0
        viols = []
        kind = "multidev_ino_alias" if case.get("multidev") and any("dev" in kv for kv in case["plan"].get("stat", {}).values()) else "plain"
        with ctx.sandbox(world) as sb:
            gen.validate_model(world, sb.root)
            default = case["roots"][0]["sp"]["kind"] == "default"
            cwd = case["roots"][0]["top"] if default else case.get("cwd", "")
            multisets = {}
            for flip in (False, True):
                if default and flip:
                    # the default root takes no options: there is no dfs spelling of it
                    continue
                q = self.query(case, sb.root, flip)
                res = sb.run([q], plan=case["plan"], cwd=cwd)
                rows = self.parse_rows(case, res)
                if rows is None:
                    viols.append(Violation(PROP, "C01.set", ["C01.set", "output_not_well_formed:" + case["fmt"], kind], {"query": q, "stdout": res.stdout[:300].decode("utf-8", "replace")}))
                    continue
                if len(ctx.samples) < 2:
                    ctx.samples.append({"argv": [q], "cwd": cwd, "outcome": res.summary(), "rows": len(rows)})
                # expected rows
                expected = collections.Counter()
                per_root = []
                for r in case["roots"]:
                    sp = spell_root(r["sp"], r["top"], sb.root, cwd)
                    walk = gen.ref_walk(world, r["top"])
                    exp = {}
                    for rel, node, lvl in walk:
                        if gen.in_window(lvl, r["mind"], r["maxd"]):
                            # fselect prints names lossily: every invalid byte becomes U+FFFD
                            key = printed(sp, rel).encode("utf-8", "surrogateescape").decode("utf-8", "replace").encode("utf-8")
                            exp[key] = lvl
                            expected[key] += 1
                    per_root.append((sp, r, exp))
                got = collections.Counter(rows)
                multisets[flip] = got
                if res.sim or res.status not in (0,) or res.stderr:
                    ctx.metric("abnormal_end")
                    if res.sim or res.status not in (0, 1, 2):
                        viols.append(Violation(PROP, "C01.set", ["C01.set", "abnormal_end", kind],
                                               {"query": q, "outcome": res.summary()}))
                        continue
                if got != expected:
                    missing = sorted((expected - got).elements())[:5]
                    extra = sorted((got - expected).elements())[:5]
                    what = "missing" if missing and not extra else "extra" if extra and not missing else "both"
                    dup = [k for k, v in got.items() if v > 1]
                    if dup and not (set(got) - set(expected)):
                        what = "duplicate" if not missing else what
                    viols.append(Violation(PROP, "C01.set", ["C01.set", what, kind],
                                           {"query": q, "cwd": cwd, "missing": [m.decode("utf-8", "replace") for m in missing],
                                            "extra": [m.decode("utf-8", "replace") for m in extra], "rows": len(rows), "expected": sum(expected.values()),
                                            "stderr": res.stderr[:300].decode("utf-8", "replace"), "status": res.status}))
                    continue
                # order clauses, per root (not asserted when lossy printing makes rows of different entries identical)
                lossy = any(0xDC80 <= ord(ch) <= 0xDCFF for n in world["nodes"] for ch in n["path"])
                for sp, r, exp in ([] if lossy else per_root):
                    mine = [x for x in rows if x in exp]
                    mode = self.mode_of(r, flip)
                    if mode == "bfs":
                        lv = [exp[x] for x in mine]
                        if any(lv[i] > lv[i + 1] for i in range(len(lv) - 1)):
                            viols.append(Violation(PROP, "C01.bfs", ["C01.bfs", "level_decreases", kind],
                                                   {"query": q, "rows": [x.decode("utf-8", "replace") for x in mine][:40], "levels": lv[:40]}))
                    else:
                        bad = self.dfs_violation(mine, exp, world, sp, r)
                        if bad:
                            viols.append(Violation(PROP, "C01.dfs", ["C01.dfs", "subtree_not_contiguous", kind],
                                                   {"query": q, "dir": bad, "rows": [x.decode("utf-8", "replace") for x in mine][:40]}))
            if case.get("session") and not viols and not default and not case["plan"].get("tty"):
                # both spellings as the two queries of one interactive session: the second walk starts from a clean slate
                # (no visited set, queue or counter carried over), so the session prints what the two one-shot runs print
                qa, qb = self.query(case, sb.root, False), self.query(case, sb.root, True)
                if not any(c in qa + qb for c in "\n\r"):
                    ra = sb.run([qa], plan=case["plan"], cwd=cwd)
                    rb = sb.run([qb], plan=case["plan"], cwd=cwd)
                    rs = sb.run(["-i"], plan=case["plan"], cwd=cwd, stdin_text=qa + "\n" + qb + "\nexit\n")
                    if ra.status == 0 and rb.status == 0 and not ra.sim and not rb.sim:
                        i_ = rs.stdout.find(ra.stdout)
                        if rs.sim or rs.signal is not None or i_ < 0 or rs.stdout.find(rb.stdout, i_ + len(ra.stdout)) < 0:
                            viols.append(Violation(PROP, "C01.session", ["C01.session", "second_query_of_a_session_differs", kind],
                                                   {"first": qa, "second": qb, "outcome": rs.summary(), "one_shot_bytes": len(ra.stdout) + len(rb.stdout), "session_bytes": len(rs.stdout)}))
                        ctx.metric("sessions")
            if False in multisets and True in multisets and multisets[False] != multisets[True] and not viols:
                viols.append(Violation(PROP, "C01.modes", ["C01.modes", "bfs_dfs_differ", kind], {"query": self.query(case, "$W")}))
        return viols

    @staticmethod
    def dfs_violation(rows, exp, world, sp, r):
        """Every reported directory row must be immediately followed by exactly the reported rows of its subtree."""
        nm = gen.node_map(world)
        idx = {x: i for i, x in enumerate(rows)}
        pre = (sp if sp.endswith("/") else sp + "/").encode("utf-8")
        for i, x in enumerate(rows):
            rel = x[len(pre):].decode("utf-8")
            node = nm.get(r["top"] + "/" + rel)
            if not node or node["type"] != "dir":
                continue
            sub = [y for y in rows if y.startswith(x + b"/")]
            want = set(sub)
            seg = rows[i + 1:i + 1 + len(sub)]
            if set(seg) != want:
                return x.decode("utf-8", "replace")
        return None

    def exhaustive_note(self, metrics):
        return "none (sampled); both traversal modes are run for every case"


CHECK = Check()
