"""C06 — LIMIT N returns min(N, matches) rows, and with ORDER BY the true top N."""
import collections
import copy

from .. import gen
from ..core import CaseInvalid
from ..harness import Violation
from .c05 import KEYS, gen_ordered_world, gen_stat_overlay, keyval, sorted_violation

PROP = "C06"
LKEYS = ["name", "size", "ext", "hardlinks", "length(name)", "uid", "modified", "created", "path", "contains('ab')"]  # the last one names no column


def add_zips(rng, world, tops):
    dirs = [n["path"] for n in world["nodes"] if n["type"] == "dir"]
    for i in range(rng.choice([1, 1, 2, 3])):
        d = rng.choice(dirs)
        name = "arc%d.%s" % (i, rng.choice(["zip", "jar", "zip", "war", "ZIP"]))
        members = []
        for j in range(rng.choice([0, 1, 2, 3, 5, 8])):
            members.append({"name": rng.choice(["", "sub/", "sub/deep/"]) + "m%d.%s" % (j, rng.choice(["txt", "c", "o"])),
                            "size": rng.choice([0, 9, 10, 10, 100, 100, 1000]), "mode": rng.choice([0o100644, 0o100755, None]),
                            "deflate": rng.random() < 0.5, "date": [2020 + j % 3, 1 + j % 12, 1 + j, 1, 2, 4]})
        if rng.random() < 0.3:
            members.append({"name": "sub/", "mode": 0o40755})
        world["nodes"].append({"path": d + "/" + name, "type": "file", "zip": {"members": members}})


def count_rows(fmt, out, ncols):
    """Number of rows in fselect's output of the given format; None when the stream is not well-formed."""
    import csv, io, json
    try:
        if fmt == "json":
            v = json.loads(out.decode("utf-8", "replace"))
            return len(v) if isinstance(v, list) and all(isinstance(x, dict) for x in v) else None  # equal column names share one key
        if fmt == "csv":
            recs = list(csv.reader(io.StringIO(out.decode("utf-8", "replace"), newline="")))
            return len(recs) if all(len(r) == ncols for r in recs) else None
        if fmt == "html":
            # only the number of table rows is looked at: the mark-up around them is the formatter's business
            return out.count(b"<tr") if out.count(b"<tr") == out.count(b"</tr>") else None
        if fmt == "lines":
            n = out.count(b"\n")
            return n // ncols if n % ncols == 0 and (out.endswith(b"\n") or not out) else None
        if fmt == "tabs":
            lines = out.split(b"\n")
            if lines[-1] != b"":
                return None
            return len(lines) - 1 if all(l.count(b"\t") == ncols - 1 for l in lines[:-1]) else None
    except ValueError:
        return None
    return None


def same_keys(got, want, keys):
    """Key sequences agree under the documented typing; a value that is not of the key's type
    (empty uid of an archive member) carries no constraint."""
    if len(got) != len(want):
        return False
    for a, b in zip(got, want):
        for j, k in enumerate(keys):
            x, y = keyval(KEYS[k["key"]], a[j]), keyval(KEYS[k["key"]], b[j])
            if x is None or y is None:
                break
            if x != y:
                return False
    return True


class Check:
    id = PROP
    level = "exploration"
    cases = {"quick": 1800, "thorough": 20000}
    rule = ("campaign per case: one world, one query (filtered or not, ordered by 1-2 keys with ties straddling the cut or unordered, 1-3 roots, bfs/dfs, with or without `archives` over worlds holding small zips), "
            "two environments E1/E2 (arrival orders, DT_UNKNOWN, inode numbering, hash seed), in 15% of the campaigns with 1-3 entries whose lstat fails in every run; the unlimited run under E1 gives M rows, then `limit N` is run for EVERY N in 0..M+2 under E1 and under E2. "
            "Non-trivial = non-default environment choice reached fselect; distinct = distinct event-log signature.")
    assumptions = ["relational oracle: fselect's own unlimited run of the same world; no model of WHERE or of the comparator",
                   "ties at the cut may be resolved either way (only the key sequence is compared)"]

    def gen(self, rng, tier, index):
        tops = rng.sample(gen.SAFE_ROOTS, rng.choice([1, 1, 2, 3]))
        world = gen_ordered_world(rng, tops)
        # keep campaigns small: at most ~24 entries
        if len(world["nodes"]) > 24:
            keep = world["nodes"][:24]
            paths = {n["path"] for n in keep}
            world = {"nodes": [n for n in keep if n["path"].rsplit("/", 1)[0] in paths or "/" not in n["path"]]}
        archives = rng.random() < 0.4
        if archives:
            add_zips(rng, world, tops)
        ordered = rng.random() < 0.6
        keys = []
        if ordered:
            for k in rng.sample(LKEYS, rng.choice([1, 1, 2])):
                keys.append({"key": k, "desc": rng.random() < 0.4, "asc_word": False})
        where = rng.choice([None, None, "size > 9", "size >= 10", "is_dir = false"])
        roots = [{"top": t, "mode": rng.choice(["bfs", "dfs"]), "arc": archives and rng.random() < 0.85} for t in tops]
        envs = []
        for i in range(2):
            _, plan = gen.gen_env(rng, world)
            for p, kv in gen_stat_overlay(rng, world).items() if i == 0 else []:
                plan.setdefault("stat", {}).setdefault(p, {}).update(kv)
            envs.append(plan)
        # the stat overlay (uid/nlink answers) is part of the world's answers, the same under both E
        ov = {p: {k: v for k, v in kv.items() if k not in ("ino", "dev")} for p, kv in envs[0].get("stat", {}).items()}
        for p, kv in ov.items():
            if kv:
                envs[1].setdefault("stat", {}).setdefault(p, {}).update(kv)
        faults = []
        if rng.random() < 0.15:
            # entries that readdir lists but lstat refuses (removed in between, or behind an unsearchable component):
            # the same answers in every run of the campaign, so M and the limited runs stay comparable
            cand = [n["path"] for n in world["nodes"] if "/" in n["path"] and n["type"] in ("file", "symlink", "fifo")]
            for p in rng.sample(cand, min(len(cand), rng.choice([1, 1, 2, 3]))):
                faults.append({"call": "stat", "path": p, "errno": rng.choice(["ENOENT", "EACCES"])})
        return {"world": world, "roots": roots, "keys": keys, "where": where, "plans": envs, "tz": "UTC", "faults": faults,
                # the same limits through another output format (its separators, header and footer are written around the cut)
                "fmt": rng.choice([None, None, "json", "csv", "html", "lines", "tabs"]),
                # select-list shapes: a column that reaches the entry only through a later function argument, with or without `path` next to it
                "xcol": rng.choice([None, None, None, "concat_ws('-', name, size)", "upper(name)", "concat('n=', name)", "length(name)", "concat_ws('/', 'p', ext, name)"]),
                "nopath": rng.random() < 0.5,
                # clause order: FROM in its usual place, or closing the query
                "from_last": rng.random() < 0.15,
                "session": rng.random() < 0.12}

    def sample_view(self, case):
        c = dict(case)
        c["world"] = gen.view_world(case["world"], 25)
        return c

    def shrinks(self, case):
        if len(case["keys"]) > 1:
            for i in range(len(case["keys"])):
                c = copy.deepcopy(case)
                del c["keys"][i]
                yield c
        if case["where"]:
            c = copy.deepcopy(case)
            c["where"] = None
            yield c
        if len(case["roots"]) > 1:
            for i in range(len(case["roots"])):
                c = copy.deepcopy(case)
                del c["roots"][i]
                yield c
        for i, r in enumerate(case["roots"]):
            if r["mode"] != "bfs":
                c = copy.deepcopy(case)
                c["roots"][i]["mode"] = "bfs"
                yield c
        for i, n in enumerate(case["world"]["nodes"]):
            if "zip" in n and len(n["zip"]["members"]) > 0:
                for j in range(len(n["zip"]["members"])):
                    c = copy.deepcopy(case)
                    del c["world"]["nodes"][i]["zip"]["members"][j]
                    yield c
        for i in range(len(case.get("faults") or [])):
            c = copy.deepcopy(case)
            del c["faults"][i]
            yield c
        for k in ("xcol", "fmt", "from_last", "session"):
            if case.get(k):
                c = copy.deepcopy(case)
                c[k] = None
                yield c
        if case.get("only_n") is None:
            return
        if len(case["plans"]) > 1:
            c = copy.deepcopy(case)
            c["plans"] = [c["plans"][c.get("only_env", 0)]]
            c["only_env"] = 0
            yield c

    def evaluate(self, case, ctx):
        world = case["world"]
        nm = gen.node_map(world)
        for r in case["roots"]:
            if r["top"] not in nm:
                raise CaseInvalid("root missing")
        keys = case["keys"]
        viols = []
        fromc = " from " + ", ".join("%s %s%s" % (r["top"], r["mode"], " archives" if r.get("arc") else "") for r in case["roots"])
        wherec = (" where " + case["where"]) if case["where"] else ""
        faults = [f for f in case.get("faults") or [] if f["path"] in nm]
        sel = ["path"] + [k["key"] for k in keys] + (["size"] if faults else [])
        if case.get("xcol"):
            sel = ([case["xcol"]] if case.get("nopath") and not keys and not faults else sel + [case["xcol"]])
        orderc = (" order by " + ", ".join(k["key"] + (" desc" if k["desc"] else "") for k in keys)) if keys else ""
        base = "select " + ", ".join(sel) + fromc + wherec + orderc
        from_last = bool(case.get("from_last"))

        def build(N=None, fmt="list"):
            """The query text; the relaxed grammar also takes FROM as the closing clause (after LIMIT and INTO)."""
            lim = (" limit %d" % N) if N is not None else ""
            if from_last:
                return "select " + ", ".join(sel) + wherec + orderc + lim + " into " + fmt + fromc
            return base + lim + " into " + fmt
        shape = ("ordered" if keys else "streamed") + ("+archives" if any(r.get("arc") for r in case["roots"]) else "") + ("+lstat_fails" if faults else "")
        if faults:
            case = dict(case, plans=copy.deepcopy(case["plans"]))
            for plan in case["plans"]:
                plan["fail"] = list(plan.get("fail", [])) + [dict(f) for f in faults]
        with ctx.sandbox(world) as sb:
            gen.validate_model(world, sb.root)
            r0 = sb.run([build()], plan=case["plans"][0], tz=case["tz"])
            if r0.sim or r0.status not in (0, 1) or r0.signal is not None:
                viols.append(Violation(PROP, "C06.run", ["C06.run", "abnormal_end", shape], {"query": base, "outcome": r0.summary()}))
                return viols
            rows0 = r0.rows(len(sel))
            M = len(rows0)
            # "an absent limit means unlimited": the unlimited run has as many rows as the same FROM/WHERE counts
            rc = sb.run(["select count(*)" + fromc + wherec + " into list"], plan=case["plans"][0], tz=case["tz"])
            cnt = rc.rows(1)
            if rc.sim or rc.status not in (0, 1) or len(cnt) != 1 or cnt[0][0] != str(M).encode():
                viols.append(Violation(PROP, "C06.count", ["C06.count", "unlimited_differs_from_count", shape],
                                       {"query": base, "rows": M, "count_query_says": [c[0].decode("utf-8", "replace") for c in cnt][:2], "outcome": rc.summary()}))
                return viols
            full = collections.Counter(rows0)
            keyseq0 = [row[1:1 + len(keys)] for row in rows0]
            if keys and sorted_violation(keyseq0, keys):
                ctx.metric("unlimited_not_sorted")  # C05's business; the relational comparison below still applies
            ns = list(range(0, M + 3)) + [2 ** 31 - 1, 2 ** 31, 2 ** 32 - 1]  # the largest limits the query language accepts
            if case.get("only_n") is not None:
                ns = [case["only_n"]]
            ctx.metric("campaigns")
            ctx.metric("N_values", len(ns))
            M_first = M  # the clauses after this loop run under the first environment again
            for ei, plan in enumerate(case["plans"]):
                if faults and ei > 0:
                    # with an entry that cannot be stat'ed, what the walk can learn about it (its type from the directory stream,
                    # or not) depends on the environment: the unlimited result is taken under the same environment as the limits
                    re_ = sb.run([build()], plan=plan, tz=case["tz"])
                    if re_.sim or re_.status not in (0, 1) or re_.signal is not None:
                        viols.append(Violation(PROP, "C06.run", ["C06.run", "abnormal_end", shape], {"query": build(), "outcome": re_.summary()}))
                        return viols
                    rows0 = re_.rows(len(sel))
                    M = len(rows0)
                    full = collections.Counter(rows0)
                    keyseq0 = [row[1:1 + len(keys)] for row in rows0]
                for N in ns:
                    q = build(N)
                    # a huge limit is a number, not a size: the run must fit into an ordinary address space
                    r = sb.run([q], plan=dict(plan, aslimit=4 << 30) if N >= 2 ** 31 - 1 else plan, tz=case["tz"])
                    if r.sim or r.status not in (0, 1) or r.signal is not None:
                        viols.append(Violation(PROP, "C06.run", ["C06.run", "abnormal_end", shape], {"query": q, "outcome": r.summary()}))
                        return viols
                    rows = r.rows(len(sel))
                    want = M if N == 0 else min(N, M)
                    if len(rows) != want:
                        viols.append(Violation(PROP, "C06.count", ["C06.count", "too_few" if len(rows) < want else "too_many", shape],
                                               {"query": q, "N": N, "M": M, "rows": len(rows), "env": ei, "only_n": N}))
                        return viols
                    got = collections.Counter(rows)
                    if got - full:
                        viols.append(Violation(PROP, "C06.sub", ["C06.sub", "row_not_in_unlimited_result", shape],
                                               {"query": q, "N": N, "extra": [[x.decode("utf-8", "replace") for x in rr] for rr in list((got - full).elements())[:3]], "env": ei}))
                        return viols
                    if keys:
                        ks = [row[1:1 + len(keys)] for row in rows]
                        if not same_keys(ks, keyseq0[:len(rows)], keys):
                            viols.append(Violation(PROP, "C06.top", ["C06.top", "not_the_first_N_keys", shape],
                                                   {"query": q, "N": N, "M": M, "env": ei, "got_keys": [[x.decode("utf-8", "replace") for x in k] for k in ks[:6]],
                                                    "want_keys": [[x.decode("utf-8", "replace") for x in k] for k in keyseq0[:min(len(rows), 6)]]}))
                            return viols
            M = M_first
            if case.get("session") and M >= 2 and not viols and case.get("only_n") is None and not case["plans"][0].get("tty") and not any(c in base for c in "\n\r"):
                # limited and unlimited queries as neighbours in one interactive session (`fselect -i`): what one query decided about
                # stopping early, counting or buffering must not reach the next
                N_ = max(1, M // 2)
                for qa, qb in ((build(), build(N_)), (build(1), build()), (build(N_), build(M + 1))):
                    ra = sb.run([qa], plan=case["plans"][0], tz=case["tz"])
                    rb = sb.run([qb], plan=case["plans"][0], tz=case["tz"])
                    rs = sb.run(["-i"], plan=case["plans"][0], tz=case["tz"], stdin_text=qa + "\n" + qb + "\nexit\n")
                    i_ = rs.stdout.find(ra.stdout)
                    if rs.sim or rs.signal is not None or i_ < 0 or rs.stdout.find(rb.stdout, i_ + len(ra.stdout)) < 0 or rs.stdout.count(b"\0") != ra.stdout.count(b"\0") + rb.stdout.count(b"\0"):
                        viols.append(Violation(PROP, "C06.session", ["C06.session", "second_query_of_a_session_differs", shape],
                                               {"first": qa, "second": qb, "outcome": rs.summary(), "one_shot_cells": ra.stdout.count(b"\0") + rb.stdout.count(b"\0"), "session_cells": rs.stdout.count(b"\0")}))
                        return viols
                    ctx.metric("sessions")
            fmt = case.get("fmt")
            plain = not any(c in n["path"] for n in world["nodes"] for c in "\n\t\r<") and not any("zip" in n for n in world["nodes"])
            if fmt and plain and case.get("only_n") is None:
                for N in sorted({1, 2, max(1, M - 1), M, M + 1}):
                    if N < 1:
                        continue
                    q = build(N, fmt)
                    r = sb.run([q], plan=case["plans"][0], tz=case["tz"])
                    if r.sim or r.status not in (0, 1) or r.signal is not None:
                        viols.append(Violation(PROP, "C06.run", ["C06.run", "abnormal_end", shape], {"query": q, "outcome": r.summary()}))
                        return viols
                    got_n = count_rows(fmt, r.stdout, len(sel))
                    if got_n != min(N, M):
                        viols.append(Violation(PROP, "C06.count", ["C06.count", "format:" + fmt, shape],
                                               {"query": q, "N": N, "M": M, "rows": got_n, "stdout": r.stdout[:200].decode("utf-8", "replace")}))
                        return viols
                    ctx.metric("format_limit_runs")
            if len(ctx.samples) < 2:
                ctx.samples.append({"argv": [base + " limit N into list"], "M": M, "N_values": ns[:5] + ["..."], "environments": len(case["plans"])})
        return viols

    def exhaustive_note(self, metrics):
        return "every N in 0..M+2 for %d campaigns (%d (campaign, N) pairs, each under two environments)" % (metrics.get("campaigns", 0), metrics.get("N_values", 0))


CHECK = Check()
