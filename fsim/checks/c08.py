"""C08 — GROUP BY partitions the matching entries; per-group aggregates are exact (for every hash seed)."""
import collections
import copy
import re

from .. import gen
from ..core import CaseInvalid
from ..harness import Violation
from .c05 import gen_ordered_world, gen_stat_overlay

PROP = "C08"
GKEYS = ["ext", "dir", "is_dir", "mode", "uid", "length(name)"]
AGGS = ["count(*)", "sum(size)", "min(size)", "max(size)", "avg(size)", "min(length(name))", "max(length(name))", "sum(length(name))", "max(hardlinks)"]
SAFE_VAL = re.compile(rb"^[A-Za-z0-9_./-]+$")


def is_int(b):
    try:
        int(b)
        return True
    except ValueError:
        return False


def no_ties(vals):
    """No two values are equal under either reading (text, or integer value: "5" and "05" tie numerically)."""
    typed = [int(v) if is_int(v) else v for v in vals]
    return len(set(vals)) == len(vals) and len(set(typed)) == len(typed)


def consistent_values(vals):
    """True when cmp(a, b) = numeric if both integers else bytewise is transitive on vals."""
    def lt(a, b):
        if is_int(a) and is_int(b):
            return int(a) < int(b)
        return a < b
    vs = sorted(set(vals))  # all values, in a fixed order: the oracle must not depend on the interpreter's hash seed
    if len(vs) > 40:
        return False
    for a in vs:
        for b in vs:
            for c in vs:
                if lt(a, b) and lt(b, c) and not lt(a, c):
                    return False
    return True


def restrict_cond(key, val):
    if key in ("uid", "length(name)"):
        return "%s = %s" % (key, val.decode()) if is_int(val) else None
    if key == "is_dir":
        return "is_dir = %s" % val.decode() if val in (b"true", b"false") else None
    if not SAFE_VAL.match(val) or val.decode().lower() in gen.reserved_words() or is_int(val):
        return None
    return "%s === '%s'" % (key, val.decode())


class Check:
    id = PROP
    level = "exploration"
    cases = {"quick": 4000, "thorough": 40000}
    rule = ("case = (tree with 0/1/many groups, empty-string keys, skewed group sizes, overlaid uid/mode answers) x (1-2 grouping keys from ext/dir/is_dir/mode/uid/length(name), aggregate list, optional WHERE, "
            "optional ORDER BY on a selected key or integer aggregate) ; each case is run under 3 entropy seeds (the RandomState of the partition HashMap is served by the simulator) and 2 arrival orders, "
            "plus the ungrouped key query, the ungrouped aggregate query and one restricted aggregate query per expressible group. Non-trivial = non-default environment choice reached fselect; "
            "distinct = distinct event-log signature.")
    assumptions = ["relational oracle: fselect's own ungrouped runs (AVG is compared to fselect's own ungrouped AVG)", "a key value that cannot be written as a safe quoted literal is checked by conservation only",
                   "ORDER BY is asserted when all values of the key are integers (numeric order) or none is (byte order); AVG is not used as an ordering key"]

    def gen(self, rng, tier, index):
        tops = rng.sample(gen.SAFE_ROOTS, 2) if rng.random() < 0.25 else [rng.choice(gen.SAFE_ROOTS)]
        world = gen_ordered_world(rng, tops)
        if rng.random() < 0.1 and len(tops) == 1:
            world = {"nodes": [world["nodes"][0]]}
        for n in world["nodes"]:
            if rng.random() < 0.3 and n["type"] in ("file", "dir"):
                n["mode"] = rng.choice([0o644, 0o600, 0o755, 0o4755, 0o1777])
        have = {n["path"] for n in world["nodes"]}
        if rng.random() < 0.3:
            # key values that contain the characters a careless key encoding would use as a separator,
            # chosen so that distinct key tuples collide when joined
            t = tops[0]
            sep = rng.choice([",", ",", ":", "|", ";", " ", "/"[0:0] or "-"])
            kit = ((t + "/ka" + sep + "b", "dir"), (t + "/ka" + sep + "b/x.c", "file"), (t + "/ka", "dir"), (t + "/ka/y.b" + sep + "c", "file"), (t + "/ka/z.b" + sep + "c", "file"))
            if any(pth in have for pth, _ in kit):
                kit = ()
            for pth, typ in kit:
                if pth not in have:
                    have.add(pth)
                    world["nodes"].append({"path": pth, "type": typ, **({"content": "x" * rng.choice([1, 10])} if typ == "file" else {})})
        if rng.random() < 0.3:
            t = tops[0]
            for nm_ in rng.sample(["n1.2", "n2.10", "n3.9", "n4.100", "n5.txt", "n6", "n7.1a", "n8.03", "n9.2"], rng.choice([3, 5, 7])):
                if t + "/" + nm_ not in have:
                    have.add(t + "/" + nm_)
                    world["nodes"].append({"path": t + "/" + nm_, "type": "file", "content": "x" * rng.choice([1, 10, 100])})
        if rng.random() < (0.01 if tier == "thorough" else 0.004):
            # far more rows than any internal batch or threshold (2^11 and beyond), few groups
            t = tops[0]
            nbig = rng.choice([2100, 3000, 4200])
            world["nodes"].append({"path": t + "/big", "type": "dir"})
            for i in range(nbig):
                world["nodes"].append({"path": "%s/big/b%04d.%s" % (t, i, ("aa", "bb", "cc")[(i * 7 + i // 5) % 3]), "type": "file", "content": "x" * (i % 4)})
        if rng.random() < 0.12:
            # many groups (more than a small-sort threshold) whose keys mix integers and text
            t = tops[0]
            exts = ["1", "2", "3", "5", "8", "9", "10", "11", "12", "20", "21", "100", "1a", "2b", "3c", "7z", "9x", "10a", "11b", "0x", "a", "b", "c", "d", "e", "f", "g", "05", "007", "zz", "Q", "42"]
            exts += ["g%02d" % i for i in range(30)]
            for e in rng.sample(exts, rng.randint(22, len(exts))):
                pth = "%s/m.%s" % (t, e)
                if pth not in have:
                    have.add(pth)
                    world["nodes"].append({"path": pth, "type": "file", "content": "x" * rng.choice([1, 2, 10])})
        arc = rng.random() < 0.15
        if arc:
            # archive members are entries too: they take part in the partition (with empty values for what a member does not have)
            from .c06 import add_zips
            gen.zipify(rng, world, p=0)
            add_zips(rng, world, tops[:1])  # archives (and the option) under the first root only
        keys = rng.sample(GKEYS, rng.choice([1, 1, 2, 2]))
        aggs = ["count(*)"] + rng.sample(AGGS[1:], rng.choice([1, 2, 4, 6]))
        aggs = [a for a in AGGS if a in aggs]
        where = rng.choice([None, None, "size > 9", "is_file = true"])
        order = None
        if rng.random() < 0.6:
            cand = keys + [a for a in aggs if a != "avg(size)"]
            order = {"key": rng.choice(cand), "desc": rng.random() < 0.4}
            if rng.random() < 0.4 and len(cand) > 1:
                # a second ORDER BY key decides among the (many) ties of the first
                order["then"] = {"key": rng.choice([c for c in cand if c != order["key"]]), "desc": rng.random() < 0.4}
        envs = []
        for i in range(2):
            _, plan = gen.gen_env(rng, world)
            envs.append(plan)
        ov = gen_stat_overlay(rng, world)
        for plan in envs:
            for p, kv in ov.items():
                plan.setdefault("stat", {}).setdefault(p, {}).update({k: v for k, v in kv.items() if k == "uid"})
        seeds = [rng.getrandbits(48) for _ in range(3)]
        return {"world": world, "roots": [{"top": tops[0], "mode": rng.choice(["bfs", "dfs"]) + (" archives" if arc else "")}] + [{"top": t_, "mode": rng.choice(["bfs", "dfs"])} for t_ in tops[1:]], "keys": keys, "aggs": aggs, "where": where, "order": order,
                "plans": envs, "seeds": seeds}

    def sample_view(self, case):
        c = dict(case)
        c["world"] = gen.view_world(case["world"], 25)
        return c

    def shrinks(self, case):
        if len(case["keys"]) > 1:
            for i in range(len(case["keys"])):
                c = copy.deepcopy(case)
                k = c["keys"].pop(i)
                if c["order"] and c["order"]["key"] == k:
                    c["order"] = None
                yield c
        if len(case["aggs"]) > 1:
            for i in range(1, len(case["aggs"])):
                c = copy.deepcopy(case)
                a = c["aggs"].pop(i)
                if c["order"] and c["order"]["key"] == a:
                    c["order"] = None
                yield c
        for k, v in (("where", None), ("order", None)):
            if case[k]:
                c = copy.deepcopy(case)
                c[k] = v
                yield c
        if case["order"] and case["order"].get("then"):
            c = copy.deepcopy(case)
            del c["order"]["then"]
            yield c
        if len(case["seeds"]) > 1:
            for i in range(len(case["seeds"])):
                c = copy.deepcopy(case)
                c["seeds"] = [case["seeds"][i]]
                yield c
        if len(case["plans"]) > 1:
            for i in range(len(case["plans"])):
                c = copy.deepcopy(case)
                c["plans"] = [case["plans"][i]]
                yield c

    def evaluate(self, case, ctx):
        world = case["world"]
        nm = gen.node_map(world)
        top = case["roots"][0]["top"]
        if top not in nm:
            raise CaseInvalid("root missing")
        keys, aggs = case["keys"], case["aggs"]
        if not keys or not aggs:
            raise CaseInvalid("empty")
        nk = len(keys)
        fromc = " from " + ", ".join("%s %s" % (r_["top"], r_["mode"]) for r_ in case["roots"] if r_["top"] in nm)
        wherec = (" where " + case["where"]) if case["where"] else ""
        orderc = (" order by %s%s" % (case["order"]["key"], " desc" if case["order"]["desc"] else "")) if case["order"] else ""
        then = case["order"].get("then") if case["order"] else None
        if then and (then["key"] not in keys + aggs):
            then = None
        if then:
            orderc += ", %s%s" % (then["key"], " desc" if then["desc"] else "")
        sel = keys + aggs
        qg = "select " + ", ".join(sel) + fromc + wherec + " group by " + ", ".join(keys) + orderc + " into list"
        qk = "select " + ", ".join(keys) + fromc + wherec + " into list"
        qa = "select " + ", ".join(aggs) + fromc + wherec + " into list"
        viols = []
        ksig = "+".join(keys)
        with ctx.sandbox(world) as sb:
            gen.validate_model(world, sb.root)
            p0 = case["plans"][0]
            rk = sb.run([qk], plan=p0)
            ra = sb.run([qa], plan=p0)
            for r, q in ((rk, qk), (ra, qa)):
                if r.sim or r.status != 0 or r.signal is not None:
                    viols.append(Violation(PROP, "C08.run", ["C08.run", "abnormal_end", ksig], {"query": q, "outcome": r.summary()}))
                    return viols
            keyrows = rk.rows(nk)
            distinct = collections.Counter(keyrows)
            arow = ra.rows(len(aggs))
            if len(arow) != 1:
                raise CaseInvalid("ungrouped aggregate row missing")
            arow = arow[0]
            reference = None
            order_ref = None
            for pi, plan in enumerate(case["plans"]):
                for seed in case["seeds"]:
                    p = copy.deepcopy(plan)
                    p["entropy"] = seed
                    r = sb.run([qg], plan=p)
                    if r.sim or r.status != 0 or r.signal is not None:
                        viols.append(Violation(PROP, "C08.run", ["C08.run", "abnormal_end", ksig], {"query": qg, "outcome": r.summary()}))
                        return viols
                    rows = r.rows(len(sel))
                    gk = collections.Counter(row[:nk] for row in rows)
                    if not keyrows and len(rows) <= 1:
                        # no matching entry: the statement defines no group row
                        continue
                    # C08.keys: exactly one row per distinct key
                    if set(gk) != set(distinct) or any(v != 1 for v in gk.values()):
                        viols.append(Violation(PROP, "C08.keys", ["C08.keys", "not_one_row_per_key", ksig],
                                               {"query": qg, "seed": seed, "group_keys": [[x.decode("utf-8", "replace") for x in k] for k in list(gk)[:8]],
                                                "distinct_keys": [[x.decode("utf-8", "replace") for x in k] for k in list(distinct)[:8]]}))
                        return viols
                    # C08.cons: COUNTs and SUMs add up
                    ci = nk + aggs.index("count(*)")
                    tot = sum(int(row[ci]) for row in rows)
                    if tot != len(keyrows) or str(tot).encode() != arow[aggs.index("count(*)")]:
                        viols.append(Violation(PROP, "C08.cons", ["C08.cons", "count", ksig], {"query": qg, "sum_of_group_counts": tot, "ungrouped_count": arow[aggs.index("count(*)")].decode(), "entries": len(keyrows)}))
                        return viols
                    for row in rows:
                        if int(row[ci]) != distinct[row[:nk]]:
                            viols.append(Violation(PROP, "C08.cons", ["C08.cons", "group_count", ksig], {"query": qg, "key": [x.decode("utf-8", "replace") for x in row[:nk]], "count": row[ci].decode(), "entries_with_key": distinct[row[:nk]]}))
                            return viols
                    if "sum(size)" in aggs:
                        si = nk + aggs.index("sum(size)")
                        tots = sum(int(row[si] or 0) for row in rows)
                        if str(tots).encode() != (arow[aggs.index("sum(size)")] or b"0"):
                            viols.append(Violation(PROP, "C08.cons", ["C08.cons", "sum", ksig], {"query": qg, "sum_of_group_sums": tots, "ungrouped_sum": arow[aggs.index("sum(size)")].decode()}))
                            return viols
                    # same multiset of group rows for every seed and arrival order
                    ms = collections.Counter(rows)
                    if reference is None:
                        reference = ms
                        ref_rows = rows
                    elif ms != reference:
                        viols.append(Violation(PROP, "C08.seed", ["C08.seed", "group_rows_depend_on_seed_or_order", ksig],
                                               {"query": qg, "seed": seed, "env": pi, "diff": [[x.decode("utf-8", "replace") for x in rr] for rr in list((ms - reference).elements())[:3]]}))
                        return viols
                    # C08.sorted
                    if case["order"]:
                        oi = sel.index(case["order"]["key"])
                        vals = [row[oi] for row in rows]
                        # the order of the ORDER BY key values must not depend on the hash seed or the arrival order.
                        # Asserted when a pairwise "numeric if both are integers, else text" comparison is transitive on
                        # the values present (otherwise no unique sorted order exists under any pairwise rule).
                        if order_ref is None:
                            order_ref = vals
                        elif vals != order_ref and sorted(vals) == sorted(order_ref) and consistent_values(vals) and no_ties(vals):
                            viols.append(Violation(PROP, "C08.sorted", ["C08.sorted", "order_depends_on_seed", case["order"]["key"].split("(")[0]],
                                                   {"query": qg, "seed": seed, "env": pi, "values": [v.decode("utf-8", "replace") for v in vals][:12],
                                                    "values_under_first_seed": [v.decode("utf-8", "replace") for v in order_ref][:12]}))
                            return viols
                        if all(is_int(v) for v in vals):
                            tv = [int(v) for v in vals]
                        elif not any(is_int(v) for v in vals):
                            tv = vals
                        else:
                            tv = None
                        tv2 = None
                        if then and tv is not None:
                            v2 = [row[sel.index(then["key"])] for row in rows]
                            tv2 = [int(v) for v in v2] if all(is_int(v) for v in v2) else (v2 if not any(is_int(v) for v in v2) else None)
                        if tv is not None:
                            desc = case["order"]["desc"]
                            okk = all((tv[i] >= tv[i + 1]) if desc else (tv[i] <= tv[i + 1]) for i in range(len(tv) - 1))
                            if okk and tv2 is not None:
                                # among equal first keys the second key decides
                                d2 = then["desc"]
                                okk = all(tv[i] != tv[i + 1] or ((tv2[i] >= tv2[i + 1]) if d2 else (tv2[i] <= tv2[i + 1])) for i in range(len(tv) - 1))
                                ctx.metric("two_key_group_orders")
                            if not okk:
                                viols.append(Violation(PROP, "C08.sorted", ["C08.sorted", case["order"]["key"].split("(")[0], "desc" if desc else "asc"],
                                                       {"query": qg, "seed": seed, "values": [v.decode("utf-8", "replace") for v in vals][:12]}))
                                return viols
            # the same grouping with only aggregates in the select list: one row per group all the same
            if reference is not None and not case["order"]:
                qn = "select " + ", ".join(aggs) + fromc + wherec + " group by " + ", ".join(keys) + " into list"
                rn = sb.run([qn], plan=p0)
                if rn.sim or rn.status != 0 or rn.signal is not None:
                    viols.append(Violation(PROP, "C08.run", ["C08.run", "abnormal_end", ksig], {"query": qn, "outcome": rn.summary()}))
                    return viols
                gotn = collections.Counter(rn.rows(len(aggs)))
                wantn = collections.Counter(tuple(row[nk:]) for row in ref_rows)
                if gotn != wantn:
                    viols.append(Violation(PROP, "C08.keys", ["C08.keys", "select_list_without_keys", ksig],
                                           {"query": qn, "rows": sum(gotn.values()), "groups": sum(wantn.values())}))
                    return viols
                # ... and with a select list that needs no column of the entry at all
                qc = "select count(*)" + fromc + wherec + " group by " + ", ".join(keys) + " into list"
                rc_ = sb.run([qc], plan=p0)
                ci_ = nk + aggs.index("count(*)")
                if rc_.sim or rc_.status != 0 or collections.Counter(r_[0] for r_ in rc_.rows(1)) != collections.Counter(row[ci_] for row in ref_rows):
                    viols.append(Violation(PROP, "C08.keys", ["C08.keys", "select_list_of_count_only", ksig],
                                           {"query": qc, "rows": len(rc_.rows(1)), "groups": len(ref_rows), "outcome": rc_.summary()}))
                    return viols
            # C08.restrict: each group equals the ungrouped aggregate query restricted to key = value
            if reference is not None:
                done = 0
                for row in ref_rows:
                    conds = [restrict_cond(k, v) for k, v in zip(keys, row[:nk])]
                    if any(c is None for c in conds):
                        ctx.metric("groups_not_expressible")
                        continue
                    if done >= 8:
                        break
                    done += 1
                    w = " where " + " and ".join(conds) + ((" and (" + case["where"] + ")") if case["where"] else "")
                    qr = "select " + ", ".join(aggs) + fromc + w + " into list"
                    rr = sb.run([qr], plan=p0)
                    got = rr.rows(len(aggs))
                    if rr.sim or rr.status != 0 or len(got) != 1:
                        viols.append(Violation(PROP, "C08.run", ["C08.run", "abnormal_end", ksig], {"query": qr, "outcome": rr.summary()}))
                        return viols
                    if tuple(got[0]) != tuple(row[nk:]):
                        viols.append(Violation(PROP, "C08.restrict", ["C08.restrict", "group_row_differs_from_restricted_query", ksig],
                                               {"grouped": qg, "restricted": qr, "group_row": [x.decode("utf-8", "replace") for x in row], "restricted_row": [x.decode("utf-8", "replace") for x in got[0]]}))
                        return viols
                    ctx.metric("groups_restricted")
            if len(ctx.samples) < 2:
                ctx.samples.append({"argv": [qg], "seeds": case["seeds"], "groups": len(distinct)})
        return viols


CHECK = Check()
