"""C18 — following symlinks finds what is behind them, once, and always terminates."""
import collections
import copy
import os

from .. import gen
from ..core import CaseInvalid
from ..harness import Violation

PROP = "C18"
OUTER, ROOT, SIB = "o1", "o1/rt", "o1/sib"


def rel_to(link_path, target_path):
    return os.path.relpath(target_path, os.path.dirname(link_path))


def lossy(s_):
    return s_.encode("utf-8", "surrogateescape").decode("utf-8", "replace")


def resolve_dir(cwd_abs, dpart):
    """Real directory a printed directory part denotes, read relative to the cwd. fselect prints names lossily
    (invalid bytes become U+FFFD): such a component is matched against the real entries of the directory reached so far."""
    cur = "/" if os.path.isabs(dpart) else cwd_abs
    for comp in [c for c in dpart.split("/") if c not in ("", ".")]:
        cur = os.path.realpath(cur)
        if comp == "..":
            cur = os.path.dirname(cur)
            continue
        cand = os.path.join(cur, comp)
        if "\ufffd" in comp and not os.path.lexists(cand):
            try:
                m = [e for e in os.listdir(cur) if lossy(e) == comp]
            except OSError:
                return None
            if len(m) != 1:
                return None
            cand = os.path.join(cur, m[0])
        cur = cand
    return os.path.realpath(cur) if os.path.isdir(cur) else None


class Check:
    id = PROP
    level = "exploration"
    cases = {"quick": 12000, "thorough": 150000}
    rule = ("case = world laid out as o1/{rt (the root), sib} decorated with 1-4 links (to files, to directories inside / in the sibling / above the root, to ancestors (cycles), to '.', mutual pairs, chains, dangling, self-loops; "
            "targets absolute or relative to the link's directory; link depth 1..4) x root spelling (relative, ./relative, absolute, '.') x cwd (world root, o1, the root itself) x bfs/dfs x with/without `symlinks` x optional depth window "
            "x E (arrival order of every stream - decides which path reaches a real directory first -, DT_UNKNOWN, inode renumbering, hash seed). Termination is a step budget on simulated events. "
            "Non-trivial = non-default environment choice reached fselect; distinct = distinct event-log signature.")
    assumptions = ["row identity = (real directory the printed path's directory part resolves to, read relative to the process's cwd; last component)",
                   "the reachability model is computed on the materialised world with os.path.realpath/os.listdir",
                   "with a depth window only termination, at-most-once and 'no foreign row' are asserted; exit status is asserted only when no link on the walk is dangling or self-looping"]

    def gen(self, rng, tier, index):
        def content(r):
            return "x" * r.choice([0, 1, 5])
        world = gen.gen_tree(rng, [ROOT, SIB], max_entries=rng.choice([4, 8, 14, 20]), max_depth=rng.choice([2, 3, 4]),
                             kinds={"file": 6, "dir": 6}, adversarial=rng.choice([0, 0, 0.2]), contents=content)
        # gen_tree creates the two tops as if top-level: add the outer directory in front
        world["nodes"].insert(0, {"path": OUTER, "type": "dir"})
        nodes = world["nodes"]
        have = {n["path"] for n in nodes}
        dirs_in = [n["path"] for n in nodes if n["type"] == "dir" and (n["path"] == ROOT or n["path"].startswith(ROOT + "/"))]
        files_in = [n["path"] for n in nodes if n["type"] == "file" and n["path"].startswith(ROOT + "/")]
        dirs_sib = [n["path"] for n in nodes if n["type"] == "dir" and (n["path"] == SIB or n["path"].startswith(SIB + "/"))]
        nlinks = rng.choice([1, 1, 2, 2, 3, 4])
        li = 0
        for _ in range(nlinks):
            # links mostly sit below the root; some sit in the sibling tree, where they matter once a link leads there
            outside = rng.random() < 0.25 and li > 0
            d = rng.choice(dirs_sib if outside else dirs_in)
            name = "ln%d" % li
            li += 1
            lp = d + "/" + name
            kind = rng.choice(["dir_in", "dir_in", "dir_sib", "dir_sib", "file", "ancestor", "dot", "parent", "parent", "above", "mutual", "chain", "dangling", "selfloop", "sametext"])
            if outside and kind in ("ancestor", "mutual", "file"):
                kind = "parent"
            absolute = rng.random() < 0.4

            def spell(t):
                return "$W/" + t if absolute else rel_to(lp, t)
            if kind == "dir_in":
                nodes.append({"path": lp, "type": "symlink", "target": spell(rng.choice(dirs_in))})
            elif kind == "dir_sib":
                nodes.append({"path": lp, "type": "symlink", "target": spell(rng.choice(dirs_sib))})
            elif kind == "file" and files_in:
                nodes.append({"path": lp, "type": "symlink", "target": spell(rng.choice(files_in))})
            elif kind == "ancestor":
                anc = d
                for _ in range(rng.choice([0, 1, 2])):
                    if anc != ROOT:
                        anc = os.path.dirname(anc)
                nodes.append({"path": lp, "type": "symlink", "target": spell(anc)})
            elif kind == "dot":
                nodes.append({"path": lp, "type": "symlink", "target": "."})
            elif kind == "parent":
                nodes.append({"path": lp, "type": "symlink", "target": rng.choice(["..", "..", "../..", "./.."])})
            elif kind == "above":
                nodes.append({"path": lp, "type": "symlink", "target": spell(OUTER)})
            elif kind == "mutual" and len(dirs_in) >= 2:
                a, b = rng.sample(dirs_in, 2)
                la, lb = a + "/m%da" % li, b + "/m%db" % li
                nodes.append({"path": la, "type": "symlink", "target": ("$W/" + b) if absolute else rel_to(la, b)})
                nodes.append({"path": lb, "type": "symlink", "target": ("$W/" + a) if absolute else rel_to(lb, a)})
            elif kind == "chain":
                # a chain of links; the later hop usually sits in another directory, so its relative target
                # must be resolved against *its* directory
                t = rng.choice(dirs_in + dirs_sib + dirs_sib)
                d2 = rng.choice(dirs_in + dirs_sib) if rng.random() < 0.7 else d
                l2 = d2 + "/c%d" % li
                if l2 in have or lp in have:
                    continue
                have.add(l2)
                have.add(lp)
                nodes.append({"path": l2, "type": "symlink", "target": ("$W/" + t) if absolute and rng.random() < 0.5 else rel_to(l2, t)})
                nodes.append({"path": lp, "type": "symlink", "target": ("$W/" + l2) if absolute else rel_to(lp, l2)})
            elif kind == "sametext" and len(dirs_in) >= 2:
                # two links in different directories whose target text is byte-identical but, resolved against each link's own
                # directory, denotes a directory for one and a file / nothing for the other
                a, b = rng.sample(dirs_in, 2)
                text = rng.choice(["st%d" % li, "./st%d" % li, "st%d/." % li])
                base_ = "st%d" % li
                pa, pb, la, lb = a + "/" + base_, b + "/" + base_, a + "/sa%d" % li, b + "/sb%d" % li
                if any(x in have for x in (pa, pb, la, lb)):
                    continue
                have.update((pa, pb, la, lb))
                nodes.append({"path": pa, "type": "dir"})
                nodes.append({"path": pa + "/behind", "type": "file", "content": "x"})
                if rng.random() < 0.6:
                    nodes.append({"path": pb, "type": "file", "content": ""})
                nodes.append({"path": la, "type": "symlink", "target": text})
                nodes.append({"path": lb, "type": "symlink", "target": text})
            elif kind == "dangling":
                nodes.append({"path": lp, "type": "symlink", "target": spell(ROOT + "/no/such")})
            else:
                nodes.append({"path": lp, "type": "symlink", "target": name})
        if rng.random() < 0.1:
            # names are case-sensitive: two real directories that differ only in letter case, one of them also behind a link
            da, db = ROOT + "/Pair", ROOT + "/pair"
            if da not in have and db not in have:
                have.update((da, db))
                nodes.append({"path": da, "type": "dir"})
                nodes.append({"path": da + "/in_upper", "type": "file", "content": "x"})
                nodes.append({"path": db, "type": "dir"})
                nodes.append({"path": db + "/in_lower", "type": "file", "content": "x"})
                nodes.append({"path": SIB + "/to_pair", "type": "symlink", "target": rel_to(SIB + "/to_pair", rng.choice([da, db]))})
        if rng.random() < 0.08:
            # names are byte strings: a directory whose name is not valid UTF-8, reachable only through a link
            bad = SIB + "/caf\udce9"
            if bad not in have:
                nodes.append({"path": bad, "type": "dir"})
                nodes.append({"path": bad + "/inside.txt", "type": "file", "content": "x"})
                lp = ROOT + "/l_legacy"
                nodes.append({"path": lp, "type": "symlink", "target": ("$W/" + bad) if rng.random() < 0.5 else rel_to(lp, bad)})
        cwd = rng.choice(["", "", OUTER, ROOT])
        if cwd == "":
            sp = rng.choice(["rel", "dotrel", "abs"])
        elif cwd == OUTER:
            sp = rng.choice(["rel", "abs"])
        else:
            sp = rng.choice(["dot", "abs"])
        if rng.random() < 0.12:
            # the root is spelled through a symbolic link to one of its ancestors (/x/lnk/rt with lnk -> o1)
            nodes.append({"path": "lk1", "type": "symlink", "target": OUTER})
            cwd, sp = "", rng.choice(["vialink_rel", "vialink_abs"])
        follow = rng.random() < 0.8
        window = None
        if rng.random() < 0.2:
            window = [rng.choice([0, 1, 2]), rng.choice([0, 1, 2, 3])]
        _, plan = gen.gen_env(rng, world)
        return {"world": world, "cwd": cwd, "sp": sp, "follow": follow, "mode": rng.choice(["bfs", "dfs"]), "window": window, "plan": plan,
                "symword": rng.choice(["symlinks", "sym"]),
                # sometimes an attribute column rides along (its per-entry cache must not leak into the walk's notion of identity)
                "extra_col": rng.choice(["", "", "size", "mode", "is_symlink", "is_dir"]),
                # sometimes the sibling tree is a second search root of the same query: "once per query" spans roots
                "second_root": follow and rng.random() < 0.25, "mode2": rng.choice(["bfs", "dfs"])}

    def sample_view(self, case):
        c = dict(case)
        c["world"] = gen.view_world(case["world"], 30)
        return c

    def shrinks(self, case):
        if case["window"]:
            c = copy.deepcopy(case)
            c["window"] = None
            yield c
        if case.get("second_root"):
            c = copy.deepcopy(case)
            c["second_root"] = False
            yield c
        if case["cwd"] != "":
            c = copy.deepcopy(case)
            c["cwd"], c["sp"] = "", "rel"
            yield c
        if case["sp"] not in ("rel", "dot") and not case["sp"].startswith("vialink"):
            c = copy.deepcopy(case)
            c["sp"] = "rel" if case["cwd"] != ROOT else "dot"
            yield c
        if case["mode"] != "bfs":
            c = copy.deepcopy(case)
            c["mode"] = "bfs"
            yield c

    def evaluate(self, case, ctx):
        world = case["world"]
        nm = gen.node_map(world)
        if ROOT not in nm or OUTER not in nm or (case.get("second_root") and SIB not in nm):
            raise CaseInvalid("layout")
        cwd = case["cwd"]
        viols = []
        with ctx.sandbox(world) as sb:
            gen.validate_model(world, sb.root)
            cwd_abs = os.path.join(sb.root, cwd) if cwd else sb.root
            root_abs = os.path.join(sb.root, ROOT)
            sp = case["sp"]
            if sp in ("vialink_rel", "vialink_abs"):
                if "lk1" not in nm:
                    raise CaseInvalid("link for the root spelling missing")
                rs = ("lk1/rt" if sp == "vialink_rel" else os.path.join(sb.root, "lk1", "rt"))
            elif sp == "abs":
                rs = root_abs
            elif sp == "dot":
                rs = "."
            else:
                rs = os.path.relpath(root_abs, cwd_abs)
                if sp == "dotrel":
                    rs = "./" + rs
            if cwd == ROOT and sp not in ("dot", "abs"):
                raise CaseInvalid("spelling")
            opts = ""
            if case["window"]:
                if case["window"][0]:
                    opts += " mindepth %d" % case["window"][0]
                if case["window"][1]:
                    opts += " maxdepth %d" % case["window"][1]
            opts += " " + case["mode"]
            if case["follow"]:
                opts += " " + case.get("symword", "symlinks")
            roots_abs = [root_abs]
            q = "select path%s from %s%s" % ((", " + case["extra_col"]) if case.get("extra_col") else "", rs, opts)
            if case.get("second_root"):
                sib_abs = os.path.join(sb.root, SIB)
                rs2 = sib_abs if sp in ("abs", "vialink_abs") else os.path.relpath(sib_abs, cwd_abs)
                q += ", %s %s %s" % (rs2, case.get("mode2", "bfs"), case.get("symword", "symlinks"))
                roots_abs.append(sib_abs)
            q += " into list"
            plan = dict(case["plan"], budget=3000 + 300 * len(world["nodes"]))
            res = sb.run([q], plan=plan, cwd=cwd)
            tag = ("follow" if case["follow"] else "nofollow") + ("+window" if case["window"] else "")
            if len(ctx.samples) < 2:
                ctx.samples.append({"argv": [q], "cwd": cwd, "outcome": res.summary()})
            # C18.term
            if res.sim or res.signal is not None or res.status not in (0, 1):
                viols.append(Violation(PROP, "C18.term", ["C18.term", res.sim or ("signal" if res.signal is not None else "status_%s" % res.status), tag],
                                       {"query": q, "cwd": cwd, "outcome": res.summary(), "last_events": res.log[-4:]}))
                return viols
            rows = [r[0].decode("utf-8", "replace") for r in res.rows(2 if case.get("extra_col") else 1)]
            # reachability model on the materialised world
            real_root = os.path.realpath(root_abs)
            reach = [os.path.realpath(r) for r in roots_abs]
            seen = set(reach)
            unreadable = False
            i = 0
            while i < len(reach):
                d = reach[i]
                i += 1
                for name in os.listdir(d):
                    full = os.path.join(d, name)
                    if os.path.islink(full):
                        if not os.path.exists(full):
                            # a dangling link (ENOENT) has an unreadable target: the status is left free. A self-loop or a
                            # loop of non-directory links (ELOOP) is one of the link graphs the statement names: it is a
                            # link to a non-directory, "simply listed", and makes nothing unreadable
                            try:
                                os.stat(full)
                            except OSError as e:
                                import errno as _errno
                                if e.errno != _errno.ELOOP:
                                    unreadable = True
                            continue
                        if case["follow"] and os.path.isdir(full):
                            t = os.path.realpath(full)
                            if t not in seen:
                                seen.add(t)
                                reach.append(t)
                    elif os.path.isdir(full):
                        if full not in seen:
                            seen.add(full)
                            reach.append(full)
            expected = set()
            for d in reach:
                for name in os.listdir(d):
                    expected.add((d, name))
            # identities of the printed rows
            ids = []
            for p in rows:
                dpart, base = os.path.split(p)
                real_dir = resolve_dir(cwd_abs, dpart)
                if real_dir is None:
                    viols.append(Violation(PROP, "C18.reach", ["C18.reach", "row_resolves_to_nothing", tag],
                                           {"query": q, "cwd": cwd, "row": p, "stderr": res.stderr[:300].decode("utf-8", "replace")}))
                    return viols
                if "\ufffd" in base and not os.path.lexists(os.path.join(real_dir, base)):
                    m_ = [e for e in os.listdir(real_dir) if lossy(e) == base]
                    if len(m_) == 1:
                        base = m_[0]
                ident = (real_dir, base)
                if not os.path.lexists(os.path.join(ident[0], base)):
                    viols.append(Violation(PROP, "C18.reach", ["C18.reach", "row_names_no_entry", tag], {"query": q, "cwd": cwd, "row": p}))
                    return viols
                ids.append(ident)
            cnt = collections.Counter(ids)
            dup = [k for k, v in cnt.items() if v > 1]
            if dup:
                viols.append(Violation(PROP, "C18.once", ["C18.once", "entry_listed_twice", tag],
                                       {"query": q, "cwd": cwd, "entry": [os.path.relpath(dup[0][0], sb.root), dup[0][1]], "rows": [p for p, i2 in zip(rows, ids) if i2 == dup[0]][:4]}))
                return viols
            foreign = [k for k in cnt if k not in expected]
            if foreign:
                clause = "C18.off" if not case["follow"] else "C18.reach"
                viols.append(Violation(PROP, clause, [clause, "row_from_unreachable_place", tag],
                                       {"query": q, "cwd": cwd, "entry": [os.path.relpath(foreign[0][0], sb.root), foreign[0][1]]}))
                return viols
            if not case["window"]:
                missing = [k for k in expected if k not in cnt]
                if missing:
                    m = sorted(missing)[0]
                    viols.append(Violation(PROP, "C18.reach", ["C18.reach", "entry_missing", tag],
                                           {"query": q, "cwd": cwd, "missing": [os.path.relpath(m[0], sb.root), m[1]], "n_missing": len(missing), "rows": len(rows),
                                            "stderr": res.stderr[:300].decode("utf-8", "replace"), "status": res.status}))
                    return viols
            if not unreadable and (res.status != 0 or res.stderr):
                viols.append(Violation(PROP, "C18.status", ["C18.status", "status_%s" % res.status, tag],
                                       {"query": q, "cwd": cwd, "stderr": res.stderr[:300].decode("utf-8", "replace")}))
            ctx.metric("reachable_dirs", len(reach))
            ctx.metric("dirs_behind_links", sum(1 for d in reach if not (d == real_root or d.startswith(real_root + "/"))))
        return viols


CHECK = Check()
