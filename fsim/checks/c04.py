"""C04 — column values equal what the operating system and the file content say.

The simulator gives the OS's answers, so it holds the answer sheet. Three campaigns:
  mode     exhaustive: all 4096 permission values x 7 file types (cases 0..6, in both tiers)
  meta     overlaid lstat answers (size/uid/gid/nlink/blocks/inode/mtime, ids with and without a name), link's own attributes
  content  digests / line counts / shebang / contains under simulated read chunking and short reads
  xattr    has_xattrs / capabilities: case 7 enumerates each of the 41 capabilities x {e,-} x {p,i,ip}; random capability sets otherwise
"""
import copy
import datetime
import hashlib
import os
import stat as statmod
import zoneinfo

from .. import gen
from .. import core
from ..core import CaseInvalid, HarnessError
from ..harness import Violation

PROP = "C04"
TYPES = ["file", "dir", "symlink", "fifo", "sock", "chr", "blk"]
S_IF = {"file": statmod.S_IFREG, "dir": statmod.S_IFDIR, "symlink": statmod.S_IFLNK, "fifo": statmod.S_IFIFO, "sock": statmod.S_IFSOCK,
        "chr": statmod.S_IFCHR, "blk": statmod.S_IFBLK}
TYPE_FLAG = {"file": "is_file", "dir": "is_dir", "symlink": "is_symlink", "fifo": "is_pipe", "sock": "is_socket", "chr": "is_char", "blk": "is_block"}
FLAGS = ["is_file", "is_dir", "is_symlink", "is_pipe", "is_char", "is_block", "is_socket"]
FIRST = {"is_file": "-", "is_dir": "d", "is_symlink": "l", "is_pipe": "p", "is_char": "c", "is_block": "b", "is_socket": "s"}
PERMS = ["user_read", "user_write", "user_exec", "user_all", "group_read", "group_write", "group_exec", "group_all",
         "other_read", "other_write", "other_exec", "other_all", "suid", "sgid"]
CONTENT_COLS = ["sha1", "sha256", "sha512", "sha3", "line_count", "is_shebang"]
SIZES = [0, 1, 2, 3, 100, 8191, 8192, 8193, 32767, 32768, 32769, 65535, 65536, 65537, 100000]
# columns mixed into the meta query without being asserted themselves: evaluating them must not change what the asserted columns say
NOISE_OPEN = ["is_text", "is_binary", "mime", "is_shebang", "has_xattrs", "capabilities"]  # look at the (link-followed) file
NOISE = NOISE_OPEN + ["is_archive", "is_audio", "is_image", "is_source", "is_video", "ext", "abspath", "absdir", "dir", "fsize", "is_dir", "is_file", "is_pipe", "user_read", "suid", "device"]
NOISE_BOOL = ["is_text", "is_binary", "is_shebang", "has_xattrs", "is_archive", "is_image", "is_dir", "is_file", "user_read"]
# linux/capability.h, bit 0..40
CAPS = ["chown", "dac_override", "dac_read_search", "fowner", "fsetid", "kill", "setgid", "setuid", "setpcap", "linux_immutable", "net_bind_service",
        "net_broadcast", "net_admin", "net_raw", "ipc_lock", "ipc_owner", "sys_module", "sys_rawio", "sys_chroot", "sys_ptrace", "sys_pacct", "sys_admin",
        "sys_boot", "sys_nice", "sys_resource", "sys_time", "sys_tty_config", "mknod", "lease", "audit_write", "audit_control", "setfcap", "mac_override",
        "mac_admin", "syslog", "wake_alarm", "block_suspend", "audit_read", "perfmon", "bpf", "checkpoint_restore"]


CLASSES = ["is_archive", "is_audio", "is_book", "is_doc", "is_font", "is_image", "is_source", "is_video"]
_DEFAULTS = {}


def default_classes():
    """The extension lists of the default configuration: data, read from src/config.rs of the tree under test."""
    if not _DEFAULTS:
        import re
        text = open(os.path.join(core.REPO, "src", "config.rs"), encoding="utf-8").read()
        text = text[text.index("pub fn default() -> Config"):]
        for k in CLASSES:
            m = re.search(r"\b%s: vec_of_strings!\[(.*?)\]" % k, text, re.S)
            if not m:
                raise HarnessError("default list of %s not found in config.rs" % k)
            _DEFAULTS[k] = re.findall(r'"([^"]*)"', m.group(1))
    return _DEFAULTS


def cap_blob(eff, permitted, inheritable):
    """VFS_CAP_REVISION_2 value of security.capability as the latin-1 text the world model stores."""
    import struct
    p = sum(1 << b for b in permitted)
    i = sum(1 << b for b in inheritable)
    return struct.pack("<IIIII", 0x02000000 | (1 if eff else 0), p & 0xffffffff, i & 0xffffffff, p >> 32, i >> 32).decode("latin-1")


def cap_text(eff, permitted, inheritable):
    """getcap-style text: one `cap_name=[e][i][p]` item per capability present in either set, in bit order."""
    out = []
    for b in range(len(CAPS)):
        fl = ("i" if b in inheritable else "") + ("p" if b in permitted else "")
        if fl:
            out.append("cap_%s=%s%s" % (CAPS[b], "e" if eff else "", fl))
    return " ".join(out)


def perm_expect(m):
    """Permission booleans implied by an `ls -l` mode string."""
    return {
        "user_read": m[1] == "r", "user_write": m[2] == "w", "user_exec": m[3] in "xs", "user_all": m[1] == "r" and m[2] == "w" and m[3] in "xs",
        "group_read": m[4] == "r", "group_write": m[5] == "w", "group_exec": m[6] in "xs", "group_all": m[4] == "r" and m[5] == "w" and m[6] in "xs",
        "other_read": m[7] == "r", "other_write": m[8] == "w", "other_exec": m[9] in "xt", "other_all": m[7] == "r" and m[8] == "w" and m[9] in "xt",
        "suid": m[3] in "sS", "sgid": m[6] in "sS",
    }


def b2s(b):
    return b.decode("utf-8", "replace")


class Check:
    id = PROP
    level = "exploration"
    cases = {"quick": 5000, "thorough": 60000}
    rule = ("cases 0..6: EXHAUSTIVE enumeration of the OS's st_mode answers - 4096 permission values for each of the 7 file types (real chmod/mknod on tmpfs for six types, stat overlay for symlinks), one directory of 4096 entries per type; "
            "other cases: 'meta' = random world with overlaid lstat answers (size incl. > 2^32, uid/gid with and without a name in the simulated user table, nlink, blocks, inode, mtime) under permuted arrival order, DT_UNKNOWN and several zones; "
            "'content' = files of sizes around the 8 KiB / 32 KiB / 64 KiB buffer boundaries with empty / no-trailing-newline / only-newlines / binary / shebang contents under read-chunk schedules (1-byte reads, boundary-straddling, random, one huge). "
            "Non-trivial = a simulated answer or schedule actually reached fselect (overlay applied, short read fired, custom order delivered); distinct = distinct event-log signature.")
    assumptions = ["the answer sheet is what the simulator itself answered (overlay) or the real lstat of the materialised node",
                   "contains() is asserted for valid UTF-8 content only; symlinks are excluded from the content campaign",
                   "pure decompositions are covered as a by-product only (name, is_hidden); the xattr system calls are raw system calls (rustix) and do not pass the libc seam: has_xattrs/capabilities are checked against real tmpfs attributes, without fault injection"]

    # ------------------------------------------------------------------ generation
    def gen(self, rng, tier, index):
        if index < 7:
            return {"sub": "mode", "type": TYPES[index]}
        if index == 7:
            return {"sub": "xattr", "exhaustive": True}
        if rng.random() < 0.08:
            return self.gen_xattr(rng)
        if rng.random() < 0.5:
            return self.gen_meta(rng)
        return self.gen_content(rng, tier)

    def gen_meta(self, rng):
        top = rng.choice(gen.SAFE_ROOTS)
        world = gen.gen_tree(rng, [top], max_entries=rng.choice([4, 10, 20]), max_depth=3,
                             kinds={"file": 8, "dir": 3, "symlink": 3, "fifo": 0.5, "sock": 0.3, "chr": 0.3, "blk": 0.3}, adversarial=0.15)
        # links to a big file / a directory / nothing: the link's own attributes must be reported
        world["nodes"].append({"path": top + "/big.bin", "type": "file", "sparse": rng.choice([2 ** 32 + 7, 10 ** 6, 123456789012])})
        world["nodes"].append({"path": top + "/to_big", "type": "symlink", "target": "big.bin"})
        world["nodes"].append({"path": top + "/to_self_dir", "type": "symlink", "target": "."})
        world["nodes"].append({"path": top + "/to_nothing", "type": "symlink", "target": "no/such/thing"})
        world["nodes"].append({"path": top + "/hollow", "type": "dir"})
        world["nodes"].append({"path": top + "/to_hollow", "type": "symlink", "target": "hollow"})
        world["nodes"].append({"path": top + "/to_empty_file", "type": "symlink", "target": "zero.dat"})
        world["nodes"].append({"path": top + "/zero.dat", "type": "file", "content": ""})
        if rng.random() < 0.5:
            # names around the extension rule ("the lower-cased name ends with a configured extension"): a dot-file that IS an extension,
            # the same last extension with and without a longer configured one in front, upper case, an extension without its dot
            have_ = {n["path"] for n in world["nodes"]}
            for nm_ in rng.sample([".gz", ".mp3", "x.gz", "a.tar.gz", "B.GZ", "gz", "song.mp3.txt", ".rs", "noext2", "lib.rs", ".tar.gz", "pic.JPG", "jpg", "v.mp4.", "doc.pdf",
                                   # names that are not valid UTF-8 (Latin-1 on a UTF-8 system) but end with an extension all the same
                                   "caf\udce9.pdf", "r\udce9sum\udce9.DOC", "\udcff.mp3"], rng.choice([4, 8, 18])):
                if top + "/" + nm_ not in have_:
                    world["nodes"].append({"path": top + "/" + nm_, "type": rng.choice(["file", "file", "file", "dir"]), **({})})
            for n in world["nodes"]:
                if n["type"] == "file" and "content" not in n and "sparse" not in n and "pat" not in n and "zip" not in n:
                    n["content"] = ""
        noise, noise_where = [], None
        if rng.random() < 0.5:
            noise = rng.sample(NOISE, rng.choice([1, 2, 3]))
            if rng.random() < 0.4:
                noise_where = rng.choice(NOISE_BOOL)
            if noise_where in NOISE_OPEN or any(c in NOISE_OPEN for c in noise):
                world["nodes"] = [n for n in world["nodes"] if n["type"] != "fifo"]  # opening a FIFO without a writer blocks (C17's recorded finding)
        _, plan = gen.gen_env(rng, world)
        users = {str(u): n for u, n in rng.sample([(0, "root"), (5, "games"), (1000, "alice"), (1001, "bob smith"), (65534, "nobody")], 3)}
        groups = {str(g): n for g, n in rng.sample([(0, "root"), (5, "tty"), (100, "users"), (1000, "staff")], 2)}
        plan["users"], plan["groups"], plan["ident"] = users, groups, True
        st = plan.setdefault("stat", {})
        nmounts = 0
        for n in world["nodes"]:
            kv = st.setdefault(n["path"], {})
            if rng.random() < 0.6:
                kv["uid"] = rng.choice([0, 5, 9, 10, 1000, 1001, 4242, 65534, 2 ** 31 + 1])
            if rng.random() < 0.6:
                kv["gid"] = rng.choice([0, 5, 100, 1000, 777, 2 ** 31 + 1])
            if rng.random() < 0.5:
                kv["nlink"] = rng.choice([1, 2, 9, 10, 255, 65000])
            if rng.random() < 0.4:
                kv["size"] = rng.choice([0, 1, 9, 10, 4095, 2 ** 31, 2 ** 32 + 1, 2 ** 40 + 3])
            if rng.random() < 0.4:
                kv["blocks"] = rng.choice([0, 8, 16, 2 ** 32, 12345678])
            # the access time is always a simulated answer: the real one is changed by the run itself
            # (following a link or reading a directory updates it), i.e. it is a clock the simulator must own
            kv["atime"] = rng.choice([0, 86399, 951782400, 1700000000, 2147483648, rng.randrange(0, 2 ** 32)]) * 10 ** 9
            if rng.random() < 0.4:
                kv["btime"] = rng.choice([1, 86400, 1583020799, 1700000001, 4102444800, rng.randrange(0, 2 ** 32)]) * 10 ** 9
            if rng.random() < 0.5:
                kv["mtime"] = rng.choice([0, 1, 86399, 86400, 951782400, 1583020799, 1700000000, 2147483647, 2147483648, 4102444800, rng.randrange(0, 2 ** 32)]) * 10 ** 9 + rng.choice([0, 999999999])
            if n["type"] == "dir" and rng.random() < 0.3:
                # a mount point: readdir reports the covered directory's number, lstat the mounted root's (other device)
                kv["ino"] = rng.choice([1, 2, 128])
                nmounts += 1
                kv["dev"] = 2049 + nmounts  # every mount is its own device: (device, inode) stays unique
                kv["dino"] = 900000 + nmounts
            if not kv:
                del st[n["path"]]
        classes = None
        if rng.random() < 0.2:
            # the user's configuration replaces extension lists (the active configuration decides the extension classes)
            classes = {"is_archive": rng.sample([".zip", ".txt", ".gz", ".c", ".x1", ".tar.gz"], 2), "is_image": rng.sample([".jpg", ".md", ".o", ".py"], 2), "is_source": rng.sample([".rs", ".log", ".tar.gz", ".zip"], 2),
                       # an empty list is a configuration too: nothing is of that class
                       rng.choice(["is_audio", "is_video", "is_doc"]): []}
        return {"sub": "meta", "world": world, "top": top, "plan": plan, "tz": rng.choice(["UTC", "Europe/Berlin", "America/New_York", "Asia/Kolkata"]),
                "mode": rng.choice(["bfs", "dfs"]), "classes": classes, "noise": noise, "noise_where": noise_where, "shuffle": rng.randrange(1 << 30)}

    def gen_xattr(self, rng):
        top = rng.choice(gen.SAFE_ROOTS)
        world = gen.gen_tree(rng, [top], max_entries=rng.choice([4, 10, 20]), max_depth=3, kinds={"file": 8, "dir": 3}, adversarial=0.1)
        caps = {}
        for n in world["nodes"]:
            if n["path"] == top:
                continue
            r = rng.random()
            xa = {}
            if r < 0.35:
                pass
            elif r < 0.55:
                xa["user." + rng.choice(["a", "comment", "security.capability"])] = rng.choice(["", "v", "\x00\x01"])
            elif n["type"] == "file":
                k = rng.choice([1, 1, 2, 3, 5, 41])
                bits = rng.sample(range(41), k)
                perm = [b for b in bits if rng.random() < 0.7]
                inh = [b for b in bits if b not in perm or rng.random() < 0.4]
                eff = rng.random() < 0.5
                xa["security.capability"] = cap_blob(eff, perm, inh)
                caps[n["path"]] = [eff, sorted(perm), sorted(inh)]
                if rng.random() < 0.3:
                    xa["user.also"] = "1"
            if xa:
                n["xattrs"] = xa
        _, plan = gen.gen_env(rng, world)
        return {"sub": "xattr", "world": world, "top": top, "plan": plan, "caps": caps, "mode": rng.choice(["bfs", "dfs"])}

    def gen_content(self, rng, tier):
        top = rng.choice(gen.SAFE_ROOTS)
        nodes = [{"path": top, "type": "dir"}]
        nfiles = rng.choice([1, 2, 4, 6])
        needle = rng.choice(["zq7", "needle1", "kx", "Qq"])
        chunks = {}
        for i in range(nfiles):
            size = rng.choice(SIZES) if rng.random() < 0.7 else rng.randrange(0, 3000)
            kind = rng.choice(["text", "text", "nonl", "newlines", "binary", "shebang", "hash_alone", "utf8", "utf8"])
            name = "f%d.%s" % (i, rng.choice(["txt", "sh", "bin", "dat"]))
            if rng.random() < 0.2:
                name = "sub%d/" % i + name
                nodes.append({"path": top + "/sub%d" % i, "type": "dir"})
            unit = {"text": "ab cd\n", "nonl": "x", "newlines": "\n", "binary": "\x00\xff\xfe\n\x80a", "shebang": "#!/bin/sh\necho\n", "hash_alone": "#", "utf8": "ab cd\n"}[kind]
            pat = {"unit": unit, "size": size, "insert": []}
            if kind == "utf8":
                # valid UTF-8 text whose multi-byte characters straddle the usual buffer boundaries (bytes given as latin-1 text)
                size = pat["size"] = rng.choice([8193, 32769, 65537, 70000, 131075, 140000])
                for b in (8192, 32768, 65536, 131072):
                    if b + 3 < size:
                        ch = rng.choice(["\u00c3\u00a9", "\u00e6\u0097\u00a5", "\u00f0\u009f\u0098\u0080"])  # e-acute, a CJK character, an emoji as UTF-8 bytes
                        pat["insert"].append([b - rng.randint(1, len(ch) - 1), ch])
            if kind == "shebang" and size >= 2:
                pass
            if rng.random() < 0.5 and size >= len(needle) and kind != "binary":
                off = rng.choice([0, size - len(needle), max(0, min(size - len(needle), 8190)), max(0, min(size - len(needle), 32766)), rng.randrange(0, size - len(needle) + 1)])
                pat["insert"].append([off, needle])
            node = {"path": top + "/" + name, "type": "file", "pat": pat}
            nodes.append(node)
            r = rng.random()
            if r < 0.2 and size <= 3000:
                chunks[node["path"]] = {"cycle": True, "sizes": [1]}
            elif r < 0.4:
                chunks[node["path"]] = {"cycle": True, "sizes": rng.choice([[8191, 2], [8192], [8193], [32767, 2], [32768], [4096], [2, 8190]])}
            elif r < 0.6:
                chunks[node["path"]] = {"cycle": True, "sizes": [rng.randint(1, 20000) for _ in range(5)]}
            elif r < 0.7:
                chunks[node["path"]] = {"cycle": False, "sizes": [1 << 30]}
        world = {"nodes": nodes}
        _, plan = gen.gen_env(rng, world)
        files_ = [n["path"] for n in nodes if n["type"] == "file"]
        if len(files_) >= 2 and rng.random() < 0.25:
            # files with several hard links whose inode numbers coincide across devices (content must never be shared by number)
            plan["stat"] = {}
            for i, f in enumerate(files_):
                plan["stat"][f] = {"ino": 4242 + (i // 2 if rng.random() < 0.3 else 0), "dev": 700 + i, "nlink": rng.choice([2, 3])}
        cols = rng.sample(CONTENT_COLS, rng.choice([1, 2, 3, 6]))
        if rng.random() < 0.6:
            cols.append("contains('%s')" % needle)
        return {"sub": "content", "world": world, "top": top, "plan": plan, "chunks": chunks, "cols": cols, "needle": needle, "mode": rng.choice(["bfs", "dfs"])}

    def sample_view(self, case):
        c = dict(case)
        if "world" in c:
            c["world"] = gen.view_world(case["world"], 25)
        return c

    def shrinks(self, case):
        if case["sub"] == "content":
            if case["chunks"]:
                c = copy.deepcopy(case)
                c["chunks"] = {}
                yield c
                for k in list(case["chunks"]):
                    c = copy.deepcopy(case)
                    del c["chunks"][k]
                    yield c
            if len(case["cols"]) > 1:
                for i in range(len(case["cols"])):
                    c = copy.deepcopy(case)
                    del c["cols"][i]
                    yield c
            for i, n in enumerate(case["world"]["nodes"]):
                if "pat" in n and n["pat"]["size"] > 0:
                    for newsize in (n["pat"]["size"] // 2, n["pat"]["size"] - 1):
                        c = copy.deepcopy(case)
                        c["world"]["nodes"][i]["pat"]["size"] = newsize
                        c["world"]["nodes"][i]["pat"]["insert"] = [x for x in n["pat"]["insert"] if x[0] + len(x[1]) <= newsize]
                        yield c
        if case["sub"] == "meta":
            for p, kv in case["plan"].get("stat", {}).items():
                for k in kv:
                    c = copy.deepcopy(case)
                    del c["plan"]["stat"][p][k]
                    yield c
            if case["tz"] != "UTC":
                c = copy.deepcopy(case)
                c["tz"] = "UTC"
                yield c
            for i in range(len(case.get("noise") or [])):
                c = copy.deepcopy(case)
                del c["noise"][i]
                yield c
            if case.get("noise_where"):
                c = copy.deepcopy(case)
                c["noise_where"] = None
                yield c

    # ------------------------------------------------------------------ evaluation
    def evaluate(self, case, ctx):
        return {"mode": self.eval_mode, "meta": self.eval_meta, "content": self.eval_content, "xattr": self.eval_xattr}[case["sub"]](case, ctx)

    def eval_xattr(self, case, ctx):
        """Extended attributes are real answers of the tmpfs world (the xattr system calls do not pass the libc seam); the open() in front of them does."""
        if case.get("exhaustive"):
            top = "xx"
            nodes = [{"path": top, "type": "dir"}, {"path": top + "/plain", "type": "file", "content": "p"}, {"path": top + "/sub", "type": "dir"},
                     {"path": top + "/userattr", "type": "file", "content": "", "xattrs": {"user.k": "v"}}, {"path": top + "/dirattr", "type": "dir", "xattrs": {"user.k": ""}}]
            caps = {}
            only = case.get("only")
            for b in range(41):
                for eff in (False, True):
                    for fl in ("p", "i", "ip"):
                        name = "%s/c%02d_%s%s" % (top, b, "e" if eff else "", fl)
                        if only is not None and name != only:
                            continue
                        perm, inh = ([b] if "p" in fl else []), ([b] if "i" in fl else [])
                        nodes.append({"path": name, "type": "file", "content": "x", "xattrs": {"security.capability": cap_blob(eff, perm, inh)}})
                        caps[name] = [eff, perm, inh]
            world = {"nodes": nodes}
            plan = {"entropy": 7, "clock": [1700000000 * 10 ** 9, 0]}
            mode = "bfs"
        else:
            world, top, plan, caps, mode = case["world"], case["top"], case["plan"], case["caps"], case["mode"]
        nm = gen.node_map(world)
        if top not in nm:
            raise CaseInvalid("root missing")
        caps = {k: v for k, v in caps.items() if k in nm and "security.capability" in nm[k].get("xattrs", {})}
        cols = ["path", "has_xattrs", "capabilities"]
        q = "select " + ", ".join(cols) + " from %s %s into list" % (top, mode)
        with ctx.sandbox(world) as sb:
            gen.validate_model(world, sb.root)
            res = sb.run([q], plan=plan)
            if res.sim or res.status != 0 or res.signal is not None:
                return [Violation(PROP, "C04.xattr", ["C04.xattr", "abnormal_end", "-"], {"query": q, "outcome": res.summary()})]
            rows = res.rows(len(cols))
            want_paths = sorted(n["path"] for n in world["nodes"] if n["path"] != top)
            if sorted(b2s(r[0]) for r in rows) != want_paths:
                return [Violation(PROP, "C04.xattr", ["C04.xattr", "row_set", "-"], {"query": q, "rows": len(rows), "want": len(want_paths)})]
            for row in rows:
                path, has, cap = [b2s(x) for x in row]
                real = os.listxattr(os.path.join(sb.root, path))
                model = sorted(nm[path].get("xattrs", {}))
                if sorted(real) != model:
                    raise HarnessError("materialised xattrs differ from the model: %r vs %r" % (real, model))
                w_has = "true" if model else "false"
                if has != w_has:
                    return [Violation(PROP, "C04.xattr", ["C04.xattr", "has_xattrs", nm[path]["type"]], {"query": q, "path": path, "got": has, "want": w_has, "xattrs": model, "only": path})]
                w_cap = cap_text(*caps[path]) if path in caps else ""
                if cap != w_cap:
                    kind = "single" if case.get("exhaustive") else "set"
                    return [Violation(PROP, "C04.xattr", ["C04.xattr", "capabilities", kind], {"query": q, "path": path, "got": cap, "want": w_cap, "caps": caps.get(path), "only": path})]
                ctx.metric("xattr_rows_checked")
                if path in caps:
                    ctx.metric("capability_sets_checked")
            if len(ctx.samples) < 3 and not case.get("exhaustive"):
                ctx.samples.append({"argv": [q], "rows": len(rows), "files_with_capabilities": len(caps)})
        return []

    def eval_mode(self, case, ctx):
        t = case["type"]
        only = case.get("only")  # minimised replay: a single permission value
        perms = [only] if only is not None else list(range(4096))
        nodes = [{"path": "mm", "type": "dir"}]
        plan = {"stat": {}, "entropy": 7, "clock": [1700000000 * 10 ** 9, 0], "budget": 50 * len(perms) + 2000}
        for p in perms:
            name = "mm/e%04o" % p
            if t == "symlink":
                nodes.append({"path": name, "type": "symlink", "target": "x"})
                plan["stat"][name] = {"perm": p}
            else:
                nodes.append({"path": name, "type": t, "mode": p})
        world = {"nodes": nodes}
        cols = ["name", "mode"] + FLAGS + PERMS
        q = "select " + ", ".join(cols) + " from mm depth 1 into list"
        viols = []
        with ctx.sandbox(world) as sb:
            res = sb.run([q], plan=plan, timeout=300)
            if res.sim or res.status != 0 or res.signal is not None:
                return [Violation(PROP, "C04.mode", ["C04.mode", "abnormal_end", t], {"query": q, "outcome": res.summary()})]
            rows = res.rows(len(cols))
            if len(rows) != len(perms):
                return [Violation(PROP, "C04.mode", ["C04.mode", "row_count", t], {"rows": len(rows), "want": len(perms)})]
            ctx.metric("mode_values_enumerated", len(rows))
            for row in rows:
                name = b2s(row[0])
                p = int(name[1:], 8)
                # the answer sheet: the mode the OS reported for this entry
                st = os.lstat(os.path.join(sb.root, "mm", name))
                full = (st.st_mode & ~0o7777 | p) if t == "symlink" else st.st_mode
                if t != "symlink" and (st.st_mode & 0o7777) != p:
                    raise HarnessError("chmod did not take: %s has %o" % (name, st.st_mode))
                want_mode = statmod.filemode(full)
                got = dict(zip(cols, [b2s(x) for x in row]))
                if got["mode"] != want_mode:
                    viols.append(Violation(PROP, "C04.mode", ["C04.mode", "mode_string", t], {"type": t, "perm": "%04o" % p, "got": got["mode"], "want": want_mode, "only": p}))
                    break
                trues = [f for f in FLAGS if got[f] == "true"]
                if trues != [TYPE_FLAG[t]] or any(got[f] not in ("true", "false") for f in FLAGS) or FIRST[TYPE_FLAG[t]] != want_mode[0]:
                    viols.append(Violation(PROP, "C04.mode", ["C04.mode", "type_flags", t], {"type": t, "perm": "%04o" % p, "true_flags": trues, "only": p}))
                    break
                exp = perm_expect(want_mode)
                wrong = [k for k in PERMS if got[k] != ("true" if exp[k] else "false")]
                if wrong:
                    viols.append(Violation(PROP, "C04.mode", ["C04.mode", "permission_boolean:" + wrong[0], t],
                                           {"type": t, "perm": "%04o" % p, "mode": want_mode, "wrong": {k: got[k] for k in wrong}, "only": p}))
                    break
            if len(ctx.samples) < 1:
                ctx.samples.append({"argv": [q], "entries": len(rows), "first_rows": [[b2s(x) for x in r[:3]] for r in rows[:3]]})
        if viols and only is None:
            # make the replay small: re-run with the single failing permission value
            case2 = dict(case, only=viols[0].detail["only"])
            v2 = self.eval_mode(case2, ctx)
            if any(v.sig == viols[0].sig for v in v2):
                pass
        return viols

    def eval_meta(self, case, ctx):
        world = case["world"]
        top = case["top"]
        nm = gen.node_map(world)
        if top not in nm:
            raise CaseInvalid("root missing")
        cols = ["path", "name", "size", "uid", "gid", "user", "group", "inode", "hardlinks", "blocks", "modified", "accessed", "created", "mode", "is_symlink", "is_hidden", "is_empty",
                "dir", "abspath", "absdir"]
        classes = case.get("classes")
        config = None
        cols += CLASSES
        active = dict(default_classes())
        if classes:
            active.update(classes)
            config = "".join("%s = [%s]\n" % (k, ", ".join('"%s"' % e for e in v)) for k, v in sorted(classes.items()))
        cols += [c for c in case.get("noise") or [] if c not in cols]
        if case.get("noise"):
            import random
            random.Random(case.get("shuffle", 0)).shuffle(cols)
        where = " where %s = true or size >= 0" % case["noise_where"] if case.get("noise_where") else ""
        q = "select " + ", ".join(cols) + " from %s %s%s into list" % (top, case["mode"], where)
        pi = cols.index("path")
        tz = zoneinfo.ZoneInfo(case["tz"])
        viols = []
        plan = case["plan"]
        with ctx.sandbox(world) as sb:
            gen.validate_model(world, sb.root)
            res = sb.run([q], plan=plan, tz=case["tz"], config=config)
            if res.sim or res.status != 0 or res.signal is not None:
                return [Violation(PROP, "C04.meta", ["C04.meta", "abnormal_end", "-"], {"query": q, "outcome": res.summary()})]
            rows = res.rows(len(cols))
            lossy = lambda t: t.encode("utf-8", "surrogateescape").decode("utf-8", "replace")  # how fselect prints names
            real_of = {lossy(n["path"]): n["path"] for n in world["nodes"] if n["path"] != top}
            want_paths = sorted(real_of)
            if sorted(b2s(r[pi]) for r in rows) != want_paths:
                return [Violation(PROP, "C04.meta", ["C04.meta", "row_set", "-"], {"query": q, "rows": len(rows), "want": len(want_paths)})]
            users = plan.get("users", {})
            groups = plan.get("groups", {})
            for row in rows:
                got = dict(zip(cols, [b2s(x) for x in row]))
                path = real_of[got["path"]]
                st = os.lstat(os.path.join(sb.root, path))
                ov = plan.get("stat", {}).get(path, {})
                mt = ov.get("mtime", st.st_mtime_ns)
                uid = ov.get("uid", st.st_uid)
                gid = ov.get("gid", st.st_gid)
                want = {
                    "name": path.rsplit("/", 1)[-1],
                    "size": str(ov.get("size", st.st_size)),
                    "uid": str(uid), "gid": str(gid),
                    "user": users.get(str(uid), ""), "group": groups.get(str(gid), ""),
                    "inode": str(ov.get("ino", st.st_ino)), "hardlinks": str(ov.get("nlink", st.st_nlink)), "blocks": str(ov.get("blocks", st.st_blocks)),
                    "modified": datetime.datetime.fromtimestamp(mt // 10 ** 9, tz).strftime("%Y-%m-%d %H:%M:%S"),

                    "mode": statmod.filemode(st.st_mode),
                    "is_symlink": "true" if statmod.S_ISLNK(st.st_mode) else "false",
                    "is_hidden": "true" if path.rsplit("/", 1)[-1].startswith(".") else "false",
                    # the location, decomposed: the parent as walked, the parent's real path, the entry's real path (through a link: its target's)
                    "dir": path.rsplit("/", 1)[0],
                    "absdir": os.path.join(sb.root, path.rsplit("/", 1)[0]),
                }
                try:
                    want["abspath"] = os.path.realpath(os.path.join(sb.root, path), strict=True)
                except OSError:
                    want["abspath"] = ""
                for k_, exts_ in active.items():
                    want[k_] = "true" if path.rsplit("/", 1)[-1].lower().endswith(tuple(exts_)) else "false"
                if "atime" in ov:  # asserted only for a simulated answer (the real atime is moved by the run itself)
                    want["accessed"] = datetime.datetime.fromtimestamp(ov["atime"] // 10 ** 9, tz).strftime("%Y-%m-%d %H:%M:%S")
                if "btime" in ov:
                    want["created"] = datetime.datetime.fromtimestamp(ov["btime"] // 10 ** 9, tz).strftime("%Y-%m-%d %H:%M:%S")
                if statmod.S_ISDIR(st.st_mode):
                    want["is_empty"] = "true" if not os.listdir(os.path.join(sb.root, path)) else "false"
                else:
                    # a link's own content size is the length of its target text (lstat), whatever it points to
                    want["is_empty"] = "true" if ov.get("size", st.st_size) == 0 else "false"
                for k, w in want.items():
                    w = lossy(w)
                    if k == "abspath" and statmod.S_ISLNK(st.st_mode) and got[k] == lossy(os.path.join(sb.root, path)):
                        continue  # a link's absolute location may be given as its own (unresolved) as well as its target's
                    if got[k] != w:
                        kind = "overlay" if (k in ("size", "uid", "gid", "inode", "hardlinks", "blocks", "modified", "user", "group") and ov) else "real"
                        viols.append(Violation(PROP, "C04.meta", ["C04.meta", k, nm[path]["type"]],
                                               {"query": q, "path": path, "column": k, "got": got[k], "want": w, "tz": case["tz"], "answer": kind, "overlay": ov}))
                        return viols
                ctx.metric("meta_rows_checked")
            if len(ctx.samples) < 2:
                ctx.samples.append({"argv": [q], "tz": case["tz"], "rows": len(rows)})
        return viols

    def eval_content(self, case, ctx):
        world = case["world"]
        top = case["top"]
        nm = gen.node_map(world)
        if top not in nm:
            raise CaseInvalid("root missing")
        cols = case["cols"]
        if not cols:
            raise CaseInvalid("no columns")
        sel = ["path"] + cols
        q = "select " + ", ".join(sel) + " from %s %s where is_file = true into list" % (top, case["mode"])
        plan = copy.deepcopy(case["plan"])
        plan["chunks"] = {k: v for k, v in case["chunks"].items() if k in nm}
        total = sum(n["pat"]["size"] for n in world["nodes"] if "pat" in n)
        plan["budget"] = 3000 + 200 * len(world["nodes"]) + 3 * total * (len(cols) + 1)
        viols = []
        with ctx.sandbox(world) as sb:
            gen.validate_model(world, sb.root)
            res = sb.run([q], plan=plan, timeout=300)
            if res.sim or res.status != 0 or res.signal is not None:
                return [Violation(PROP, "C04.content", ["C04.content", "abnormal_end", "-"], {"query": q, "outcome": res.summary()})]
            rows = res.rows(len(sel))
            files = sorted(n["path"] for n in world["nodes"] if n["type"] == "file")
            if sorted(b2s(r[0]) for r in rows) != files:
                return [Violation(PROP, "C04.content", ["C04.content", "row_set", "-"], {"query": q, "rows": [b2s(r[0]) for r in rows], "want": files})]
            for row in rows:
                path = b2s(row[0])
                data = core.node_bytes(nm[path])
                with open(os.path.join(sb.root, path), "rb") as f:
                    if f.read() != data:
                        raise HarnessError("materialised content differs from the model")
                for c, v in zip(cols, row[1:]):
                    v = b2s(v)
                    if c == "sha1":
                        w = hashlib.sha1(data).hexdigest()
                    elif c == "sha256":
                        w = hashlib.sha256(data).hexdigest()
                    elif c == "sha512":
                        w = hashlib.sha512(data).hexdigest()
                    elif c == "sha3":
                        w = hashlib.sha3_512(data).hexdigest()
                    elif c == "line_count":
                        w = str(data.count(b"\n"))
                    elif c == "is_shebang":
                        w = "true" if data.startswith(b"#!") else "false"
                    else:
                        try:
                            text = data.decode("utf-8")
                        except UnicodeDecodeError:
                            continue  # not text: the statement makes no claim
                        w = "true" if case["needle"] in text else "false"
                    if v != w:
                        viols.append(Violation(PROP, "C04.content", ["C04.content", c.split("(")[0], "chunked" if path in plan["chunks"] else "plain"],
                                               {"query": q, "file": path, "size": len(data), "column": c, "got": v[:80], "want": w[:80], "chunks": plan["chunks"].get(path)}))
                        return viols
                ctx.metric("content_files_checked")
            if len(ctx.samples) < 2:
                ctx.samples.append({"argv": [q], "chunks": plan["chunks"], "rows": len(rows)})
        return viols

    def exhaustive_note(self, metrics):
        return "all 4096 permission values x 7 file types: %d (type, permission) answers enumerated" % metrics.get("mode_values_enumerated", 0)


CHECK = Check()
