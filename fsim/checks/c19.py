"""C19 — archive search lists each zip member exactly once and changes nothing else."""
import collections
import copy
import os
import stat as statmod

from .. import core, gen
from ..core import CaseInvalid
from ..harness import Violation

PROP = "C19"
ZIP_EXTS = (".zip", ".jar", ".war", ".ear")
CLOCKS = [[2024, 1, 31, 12, 0, 0], [2023, 3, 31, 23, 59, 59], [2024, 2, 29, 0, 0, 0], [2023, 12, 31, 23, 59, 59], [2024, 7, 15, 8, 0, 0], [2024, 10, 31, 1, 0, 0], [2025, 5, 30, 3, 3, 3]]


def b2s(b):
    return b.decode("utf-8", "replace")


def gen_members(rng, maxn=8):
    members = []
    names = set()
    for j in range(rng.choice([0, 1, 2, 3, 5, maxn])):
        base = rng.choice(["m%d.txt" % j, "with space %d.c" % j, "uné%d.o" % j, ".hid%d" % j, "UP%d.TXT" % j, "n%d" % j])
        name = rng.choice(["", "", "sub/", "sub/deep/", "d d/"]) + base
        if name in names:
            continue
        names.add(name)
        mode = rng.choice([None, 0o100644, 0o100755, 0o100600, 0o104755, 0o100000 | rng.randrange(0, 0o10000), 0o120777])
        special = rng.random() < 0.25
        members.append({"name": name, "size": rng.choice([0, 1, 9, 10, 11, 100, 1000, 5000]), "mode": mode, "deflate": rng.random() < 0.5,
                        # "made by" system of members without a unix mode: DOS (the zip reader derives default bits) or NTFS (no mode at all)
                        "system": rng.choice([0, 10]),
                        # stored wall-clock times that do not exist, or exist twice, in some local zone (zip times carry no zone)
                        "date": rng.choice([[2021, 3, 28, 2, 30, 0], [2021, 10, 31, 2, 30, 0], [2021, 3, 14, 2, 30, 0], [2021, 11, 7, 1, 30, 0], [2020, 2, 29, 23, 59, 58]]) if special else [rng.choice([1980, 1999, 2020, 2024, 2037]), rng.choice([1, 3, 6, 11, 12]), rng.choice([1, 15, 28, 30]), rng.randrange(0, 24), rng.randrange(0, 60), rng.randrange(0, 30) * 2]})
    if rng.random() < 0.4 and "sub/" not in names:
        # directory members as different tools store them: with the type bits, with permission bits only, without a unix mode
        members.append({"name": "sub/", "mode": rng.choice([0o40755, 0o40700, 0o41777, 0o755, 0o700, None]), "date": [2021, 3, 4, 5, 6, 8]})
    if rng.random() < 0.2 and "d d/" not in names:
        members.append({"name": "d d/", "mode": rng.choice([0o755, 0o40755, None]), "date": [2022, 6, 15, 10, 0, 0]})
    return members


def is_zip_name(name, exts=None):
    return name.lower().endswith(tuple(exts) if exts else ZIP_EXTS)


def all_sound(world, exts=None):
    """Every entry with an archive name is a sound zip archive (then nothing is skipped and the status must be 0).
    A skipped archive may legitimately be reported and counted (status 1): the statement only forbids aborting and losing rows."""
    nm_ = {n["path"]: n for n in world["nodes"]}
    for n in world["nodes"]:
        if not is_zip_name(n["path"].rsplit("/", 1)[-1], exts):
            continue
        t = n
        if n["type"] == "symlink":
            t = nm_.get(os.path.normpath(os.path.join(os.path.dirname(n["path"]), n["target"])))
        if t is None or t["type"] != "file" or "zip" not in t or "trunc" in t or t.get("flip"):
            return False
    return True


def gen_plain(path):
    import re
    return re.fullmatch(r"[A-Za-z0-9_./-]+", path) is not None and not path.rsplit("/", 1)[-1][0].isdigit()


def lz_path(t):
    return t.encode("utf-8", "surrogateescape").decode("utf-8", "replace").encode("utf-8")


class Check:
    id = PROP
    level = "fault_enumeration"
    cases = {"quick": 800, "thorough": 8000}
    rule = ("case = tree holding zip archives (0..N members, nested directories, stored/deflated, unix modes and type bits, dates across months/years, names with spaces and non-ASCII, .zip/.jar/.war/.ear/.ZIP, "
            "a zip under a non-zip name, non-zips and a directory under a zip name) x E (arrival order, DT_UNKNOWN, inode renumbering, hash seed, simulated clock incl. the 31st and 29 Feb). "
            "list: member rows against a zipfile model + ordinary rows relational to the query without `archives`, with WHERE / ORDER BY / LIMIT variants. "
            "trunc: EVERY truncation length 0..len-1 of a small archive. flip: EVERY byte of the central directory and end record XOR 0xFF and XOR one seeded bit. "
            "io: open errors, read errors at offsets during parsing, short-read schedules (must be masked), vanish between readdir and open. "
            "Non-trivial = a fault/stored-byte corruption/non-default environment choice reached fselect; distinct = distinct event-log signature.")
    assumptions = ["member rows of a corrupt archive are only required to be well-formed `[archive] ...` rows; wrong data about other entries is the violation",
                   "member `mode` is asserted only for members whose unix mode the archive stores (create_system = unix)"]
    simulated_time = "clock frozen per case at one of: 31 Jan, 31 Mar 23:59:59, 29 Feb, 31 Dec 23:59:59, 31 Oct, mid-month instants (zip timestamps are combined with the current local date by fselect)"

    def gen(self, rng, tier, index):
        r = rng.random()
        sub = "list" if r < 0.6 else "trunc" if r < 0.72 else "flip" if r < 0.84 else "io"
        top = rng.choice(gen.SAFE_ROOTS)
        world = gen.gen_tree(rng, [top], max_entries=rng.choice([2, 5, 10]), max_depth=3, kinds={"file": 6, "dir": 3, "symlink": 0.5}, adversarial=0.1)
        dirs = [n["path"] for n in world["nodes"] if n["type"] == "dir"]
        have = {n["path"] for n in world["nodes"]}
        # the list of zip extensions is configuration: sometimes the user's config.toml replaces it
        zip_exts = [".zip", ".pkg"] if (sub == "list" and rng.random() < 0.15) else None
        narc = rng.choice([1, 1, 2, 3]) if sub == "list" else rng.choice([1, 2])
        arcs = []
        for i in range(narc):
            d = rng.choice(dirs)
            ext = rng.choice(["zip", "zip", "jar", "war", "ear", "ZIP", "Zip"] + (["pkg", "PKG", "pkg"] if zip_exts else []))
            p = "%s/arc%d.%s" % (d, i, ext)
            members = gen_members(rng, 8 if sub == "list" else 3)
            if sub in ("trunc", "flip"):
                for m in members:
                    m["size"] = min(m.get("size", 0), 20)
            recipe = {"members": members, "comment": rng.choice(["", "", "hello"])}
            if sub == "list" and rng.random() < 0.15:
                # an archive behind a launcher stub, sometimes larger than any end-of-central-directory search window (64 KiB + 22)
                recipe["prefix"] = rng.choice([40, 4096, 70000])
                if rng.random() < 0.5:
                    members.append({"name": "big.bin", "size": 70000, "mode": 0o100644})
            world["nodes"].append({"path": p, "type": "file", "zip": recipe})
            arcs.append(p)
        if sub == "list":
            d = rng.choice(dirs)
            if rng.random() < 0.3 and arcs:
                # a link with an archive name to an archive (deploy/current.jar -> app.jar): searched through the link
                tgt = rng.choice(arcs)
                lp = os.path.dirname(tgt) + "/cur%d.%s" % (len(arcs), rng.choice(["jar", "zip"]))
                world["nodes"].append({"path": lp, "type": "symlink", "target": os.path.basename(tgt)})
            if rng.random() < 0.12:
                # an archive whose own name is not valid UTF-8 (a Latin-1 name on a UTF-8 system): still an archive
                world["nodes"].append({"path": d + "/caf\udce9." + rng.choice(["zip", "jar"]), "type": "file", "zip": {"members": gen_members(rng, 3)}})
            if rng.random() < 0.4:
                world["nodes"].append({"path": d + "/hidden_zip.dat", "type": "file", "zip": {"members": gen_members(rng, 3)}})
            if rng.random() < 0.4:
                world["nodes"].append({"path": d + "/notzip.zip", "type": "file", "content": rng.choice(["", "PK", "PK\x03\x04 not really", "x" * 100])})
            if rng.random() < 0.3:
                world["nodes"].append({"path": d + "/dir.zip", "type": "dir"})
                world["nodes"].append({"path": d + "/dir.zip/inner.txt", "type": "file", "content": "abc"})
            if rng.random() < 0.3:
                # two sibling sub-trees with an archive each: they serve as two roots of one query of which only one has `archives`
                for sd in ("ma", "mb"):
                    if top + "/" + sd not in have:
                        world["nodes"].append({"path": top + "/" + sd, "type": "dir"})
                        world["nodes"].append({"path": "%s/%s/in_%s.%s" % (top, sd, sd, rng.choice(["zip", "jar"])), "type": "file", "zip": {"members": gen_members(rng, 3)}})
                        world["nodes"].append({"path": "%s/%s/plain.txt" % (top, sd), "type": "file", "content": "p"})
        _, plan = gen.gen_env(rng, world)
        c = rng.choice(CLOCKS)
        import datetime
        plan["clock"] = [int(datetime.datetime(*c, tzinfo=datetime.timezone.utc).timestamp()) * 10 ** 9, 0]
        case = {"zip_exts": zip_exts, "sub": sub, "world": world, "top": top, "plan": plan, "mode": rng.choice(["bfs", "dfs"]), "arcword": rng.choice(["archives", "arc"]), "tz": rng.choice(["UTC", "Europe/Berlin", "Asia/Kolkata", "America/New_York"])}
        if sub == "list":
            case["variant"] = rng.choice(["plain", "plain", "where", "order", "limit", "where_limit", "order_limit"])
            case["N"] = rng.randint(1, 12)
            case["maxd"] = rng.choice([0, 0, 0, 1, 2, 3])
            case["maxword"] = rng.choice(["maxdepth", "depth"])
            if case["variant"] == "plain" and rng.random() < 0.3:
                # a password-protected member that is not the last one: it cannot be opened (its own row is optional),
                # the members stored after it are listed all the same
                for n in world["nodes"]:
                    ms = n.get("zip", {}).get("members", []) if "zip" in n else []
                    cand = [m for m in ms[:-1] if not m["name"].endswith("/")]
                    if cand:
                        rng.choice(cand)["encrypted"] = True
                        break
        elif sub == "flip":
            case["bitseed"] = rng.getrandbits(30)
            case["target"] = rng.choice(arcs)
            # sometimes every byte of the archive (local headers and data too), not only the central directory
            case["all_bytes"] = rng.random() < (0.5 if tier == "thorough" else 0.2)
        elif sub == "trunc":
            case["target"] = rng.choice(arcs)
        else:
            case["target"] = rng.choice(arcs)
            case["io"] = rng.choice(["open_EACCES", "open_EIO", "read_mid", "read_0", "short", "short", "vanish"])
            case["off_frac"] = rng.random()
            case["chunks"] = rng.choice([[1], [2, 1], [7], [22], [46, 1], [rng.randint(1, 64) for _ in range(4)]])
        return case

    def sample_view(self, case):
        c = dict(case)
        c["world"] = gen.view_world(case["world"], 25)
        return c

    def shrinks(self, case):
        for i, n in enumerate(case["world"]["nodes"]):
            if "zip" in n:
                for j in range(len(n["zip"]["members"])):
                    c = copy.deepcopy(case)
                    del c["world"]["nodes"][i]["zip"]["members"][j]
                    yield c
                if n["zip"].get("comment"):
                    c = copy.deepcopy(case)
                    c["world"]["nodes"][i]["zip"]["comment"] = ""
                    yield c
        if case.get("variant", "plain") != "plain":
            c = copy.deepcopy(case)
            c["variant"] = "plain"
            yield c
        if case.get("tz") != "UTC":
            c = copy.deepcopy(case)
            c["tz"] = "UTC"
            yield c

    # ------------------------------------------------------------------ model
    def member_rows(self, world, top, nm, exts=None):
        """Expected (path, name, size, is_dir, modified, mode-or-None) for every member of every searched archive."""
        out = []
        sources = []
        self._optional = set()  # rows of members that cannot be opened: allowed, not required
        self._apath = {}        # printed member path -> world path of its archive
        for n in world["nodes"]:
            if n["type"] == "file" and "zip" in n and is_zip_name(n["path"].rsplit("/", 1)[-1], exts) and "trunc" not in n and not n.get("flip"):
                sources.append((n["path"], n))
            elif n["type"] == "symlink" and is_zip_name(n["path"].rsplit("/", 1)[-1], exts):
                t = nm.get(os.path.normpath(os.path.join(os.path.dirname(n["path"]), n["target"])))
                if t is not None and t["type"] == "file" and "zip" in t and "trunc" not in t and not t.get("flip"):
                    sources.append((n["path"], t))
        for apath, n in sources:
            if True:
                for m in n["zip"]["members"]:
                    isdir = m["name"].endswith("/")
                    size = 0 if isdir else (len(m["data"]) if "data" in m else m.get("size", 0))
                    d = m.get("date", [2020, 1, 2, 3, 4, 6])
                    # the mode string is asserted when the archive stores a unix mode *with* file-type bits
                    mode = statmod.filemode(m["mode"]) if m.get("mode") is not None and (m["mode"] & 0o170000) else None
                    lz = lambda t_: t_.encode("utf-8", "surrogateescape").decode("utf-8", "replace").encode("utf-8")  # printed lossily
                    # permission booleans: from the stored unix mode; a member without any stored mode has none of them
                    # (never the containing archive's). Directory members without a unix mode get DOS-derived bits: not asserted.
                    if m.get("mode") is not None:
                        pb = [b"true" if m["mode"] & bit else b"false" for bit in (0o100, 0o004, 0o4000)]
                    elif not isdir and m.get("system", 0) == 10:
                        pb = [b"false", b"false", b"false"]
                    else:
                        pb = [None, None, None]
                    self._apath[lz("[%s] %s" % (apath, m["name"]))] = apath
                    if m.get("encrypted"):
                        self._optional.add(lz("[%s] %s" % (apath, m["name"])))
                    out.append((lz("[%s] %s" % (apath, m["name"])), lz("[%s] %s" % (apath.rsplit("/", 1)[-1], m["name"])),
                                str(size).encode(), b"true" if isdir else b"false", ("%04d-%02d-%02d %02d:%02d:%02d" % tuple(d)).encode(), mode.encode() if mode else None, pb[0], pb[1], pb[2]))
        return out

    # ------------------------------------------------------------------ evaluation
    def evaluate(self, case, ctx):
        world = case["world"]
        top = case["top"]
        nm = gen.node_map(world)
        if top not in nm:
            raise CaseInvalid("root missing")
        if case["sub"] != "list" and case["target"] not in nm:
            raise CaseInvalid("target archive missing")
        return {"list": self.eval_list, "trunc": self.eval_corrupt, "flip": self.eval_corrupt, "io": self.eval_io}[case["sub"]](case, ctx, nm)

    def abnormal(self, res):
        if res.sim:
            return res.sim
        if res.signal is not None:
            return "signal"
        if b"panicked at" in res.stderr:
            return "panic"
        if res.status not in (0, 1):
            return "status_%s" % res.status
        return None

    def eval_list(self, case, ctx, nm):
        world, top = case["world"], case["top"]
        cols = ["path", "name", "size", "is_dir", "modified", "mode", "user_exec", "other_read", "suid"]
        maxd = case.get("maxd") or 0
        # a depth limit: an archive on the last level of the window is in the window, and so are its members
        fromc = " from %s %s" % (top, case["mode"]) + ((" %s %d" % (case.get("maxword", "maxdepth"), maxd)) if maxd else "")
        arc = " " + case["arcword"]
        var = case["variant"]
        tail = {"plain": "", "where": " where size > 9", "order": " order by size desc, path", "limit": " limit %d" % case["N"],
                "where_limit": " where size > 9 limit %d" % case["N"], "order_limit": " order by size desc, path limit %d" % case["N"]}[var]
        q1 = "select " + ", ".join(cols) + fromc + arc + tail + " into list"
        q0 = "select " + ", ".join(cols) + fromc + tail.split(" limit")[0] + " into list"
        viols = []
        plan = dict(case["plan"], budget=4000 + 400 * len(world["nodes"]) + 40 * sum(len(n["zip"]["members"]) for n in world["nodes"] if "zip" in n))
        with ctx.sandbox(world) as sb:
            gen.validate_model(world, sb.root)
            exts = case.get("zip_exts")
            config = ("is_zip_archive = [%s]\n" % ", ".join('"%s"' % e for e in exts)) if exts else None
            r0 = sb.run([q0], plan=plan, tz=case["tz"], config=config)
            r1 = sb.run([q1], plan=plan, tz=case["tz"], config=config)
            if len(ctx.samples) < 2:
                ctx.samples.append({"argv": [q1], "without_archives": q0, "config.toml": config, "outcome": r1.summary()})
            sound = all_sound(world, case.get("zip_exts"))
            for r, q in ((r0, q0), (r1, q1)):
                bad = self.abnormal(r)
                if bad or (r.status != 0 and (r is r0 or sound)):
                    viols.append(Violation(PROP, "C19.run", ["C19.run", "abnormal_end:" + (bad or "status_%s" % r.status), var],
                                           {"query": q, "tz": case["tz"], "clock_ns": plan["clock"], "outcome": r.summary()}))
                    return viols
            rows0 = r0.rows(len(cols))
            rows1 = r1.rows(len(cols))
            members = self.member_rows(world, top, nm, exts)
            if maxd:
                # (the archive's own level, taken from the model: a directory name may contain "] " itself)
                members = [m for m in members if self._apath[m[0]][len(top) + 1:].count("/") + 1 <= maxd]
            if var in ("where", "where_limit"):
                members = [m for m in members if int(m[2]) > 9]
            if var == "order_limit":
                # relational: the first N keys of fselect's own unlimited ordered run with archives
                qu = q1.split(" limit")[0] + " into list"
                ru = sb.run([qu], plan=plan, tz=case["tz"], config=config)
                if self.abnormal(ru) or (ru.status != 0 and sound):
                    viols.append(Violation(PROP, "C19.run", ["C19.run", "abnormal_end", var], {"query": qu, "outcome": ru.summary()}))
                    return viols
                full = ru.rows(len(cols))
                want_n = min(case["N"], len(full))
                if len(rows1) != want_n or [r[2] for r in rows1] != [r[2] for r in full[:want_n]]:
                    viols.append(Violation(PROP, "C19.limit", ["C19.limit", "not_the_top_N", var],
                                           {"query": q1, "rows": len(rows1), "want": want_n, "sizes": [b2s(r[2]) for r in rows1][:8], "want_sizes": [b2s(r[2]) for r in full[:want_n]][:8]}))
                return viols
            ordinary1 = [r for r in rows1 if not r[0].startswith(b"[")]
            member1 = [r for r in rows1 if r[0].startswith(b"[")]
            if var in ("limit", "where_limit"):
                M = len(rows0) + len(members)
                want = min(case["N"], M)
                if len(rows1) != want:
                    viols.append(Violation(PROP, "C19.limit", ["C19.limit", "count", var], {"query": q1, "rows": len(rows1), "want": want, "M": M}))
                    return viols
                pool = collections.Counter(rows0)
                if collections.Counter(ordinary1) - pool:
                    viols.append(Violation(PROP, "C19.limit", ["C19.limit", "ordinary_row_not_in_unlimited", var], {"query": q1}))
                    return viols
                mp = collections.Counter(m[0] for m in members)
                if collections.Counter(r[0] for r in member1) - mp:
                    viols.append(Violation(PROP, "C19.limit", ["C19.limit", "member_row_not_in_model", var], {"query": q1, "rows": [b2s(r[0]) for r in member1][:5]}))
                    return viols
                return viols
            # ordinary rows exactly those of the query without `archives`
            if collections.Counter(ordinary1) != collections.Counter(rows0):
                a, b = collections.Counter(ordinary1), collections.Counter(rows0)
                viols.append(Violation(PROP, "C19.ordinary", ["C19.ordinary", "differs_from_query_without_archives", var],
                                       {"query": q1, "lost": [[b2s(x) for x in r] for r in list((b - a).elements())[:3]], "invented": [[b2s(x) for x in r] for r in list((a - b).elements())[:3]]}))
                return viols
            if var != "order" and ordinary1 != rows0:
                viols.append(Violation(PROP, "C19.ordinary", ["C19.ordinary", "order_of_ordinary_rows_changed", var], {"query": q1}))
                return viols
            # members: each exactly once, with the stored attributes
            want = collections.Counter(m[0] for m in members)
            got = collections.Counter(r[0] for r in member1)
            for o_ in self._optional:
                if o_ not in got:
                    del want[o_]
            if want != got:
                viols.append(Violation(PROP, "C19.members", ["C19.members", "missing" if (want - got) else "extra_or_duplicate", var],
                                       {"query": q1, "missing": [b2s(x) for x in list((want - got).elements())[:4]], "extra": [b2s(x) for x in list((got - want).elements())[:4]]}))
                return viols
            bypath = {m[0]: m for m in members}
            for r in member1:
                m = bypath[r[0]]
                for ci, cname in ((1, "name"), (2, "size"), (3, "is_dir"), (4, "modified"), (5, "mode"), (6, "user_exec"), (7, "other_read"), (8, "suid")):
                    if m[ci] is None:
                        continue
                    if r[ci] != m[ci]:
                        viols.append(Violation(PROP, "C19.attrs", ["C19.attrs", cname, var],
                                               {"query": q1, "member": b2s(r[0]), "column": cname, "got": b2s(r[ci]), "want": b2s(m[ci]), "tz": case["tz"], "clock_ns": plan["clock"]}))
                        return viols
                ctx.metric("members_checked")
            if var == "order":
                sizes = [int(r[2] or 0) for r in rows1]
                if any(sizes[i] < sizes[i + 1] for i in range(len(sizes) - 1)):
                    viols.append(Violation(PROP, "C19.order", ["C19.order", "not_sorted", var], {"query": q1, "sizes": sizes[:20]}))
            # `archives` is an option of one root: with two roots of which only one carries it, members come from that root alone
            subs = sorted(n["path"] for n in world["nodes"] if n["type"] == "dir" and "/" in n["path"] and n["path"].rsplit("/", 1)[0] == top
                          and not any(0xDC80 <= ord(ch) <= 0xDCFF for ch in n["path"]) and gen_plain(n["path"]))
            if var == "plain" and not viols and len(subs) >= 2 and not maxd:
                d1, d2 = subs[0], subs[-1]
                for with_arc, other in ((d1, d2), (d2, d1)):
                    first = case["N"] % 2 == 0
                    parts = ["%s %s%s" % (with_arc, case["mode"], arc), "%s %s" % (other, case["mode"])]
                    plain_parts = ["%s %s" % (with_arc, case["mode"]), "%s %s" % (other, case["mode"])]
                    if not first:
                        parts.reverse()
                        plain_parts.reverse()
                    qa = "select path from " + ", ".join(parts) + " into list"
                    qb = "select path from " + ", ".join(plain_parts) + " into list"
                    ra = sb.run([qa], plan=plan, tz=case["tz"], config=config)
                    rb = sb.run([qb], plan=plan, tz=case["tz"], config=config)
                    if self.abnormal(ra) or self.abnormal(rb):
                        viols.append(Violation(PROP, "C19.run", ["C19.run", "abnormal_end", "mixed_roots"], {"query": qa, "outcome": ra.summary()}))
                        return viols
                    rows_a = [r[0] for r in ra.rows(1)]
                    want_m = collections.Counter(m[0] for m in members if m[0].startswith(lz_path("[" + with_arc + "/")))
                    got_m = collections.Counter(r for r in rows_a if r.startswith(b"["))
                    for o_ in self._optional:
                        if o_ in want_m and o_ not in got_m:
                            del want_m[o_]
                    got_o = collections.Counter(r for r in rows_a if not r.startswith(b"["))
                    if got_m != want_m or got_o != collections.Counter(r[0] for r in rb.rows(1)):
                        viols.append(Violation(PROP, "C19.members", ["C19.members", "option_of_one_root_leaks_or_is_lost", "mixed_roots"],
                                               {"query": qa, "missing": [b2s(x) for x in list((want_m - got_m).elements())[:4]], "extra": [b2s(x) for x in list((got_m - want_m).elements())[:4]]}))
                        return viols
                    ctx.metric("mixed_root_runs")
        return viols

    def central_range(self, data):
        """Offsets of the central directory and the end record of a well-formed archive."""
        eocd = data.rfind(b"PK\x05\x06")
        if eocd < 0:
            return None
        cd_size = int.from_bytes(data[eocd + 12:eocd + 16], "little")
        cd_off = int.from_bytes(data[eocd + 16:eocd + 20], "little")
        return cd_off, len(data)

    def eval_corrupt(self, case, ctx, nm):
        world, top = case["world"], case["top"]
        target = case["target"]
        tnode = nm[target]
        good = core.node_bytes(tnode)
        if len(good) > 900:
            raise CaseInvalid("archive too large for exhaustive corruption")
        cols = ["path"]
        fromc = " from %s %s" % (top, case["mode"])
        q1 = "select path" + fromc + " " + case["arcword"] + " into list"
        q0 = "select path" + fromc + " into list"
        viols = []
        plan = dict(case["plan"], budget=6000 + 400 * len(world["nodes"]))
        sub = case["sub"]
        with ctx.sandbox(world) as sb:
            gen.validate_model(world, sb.root)
            r0 = sb.run([q0], plan=plan)
            rg = sb.run([q1], plan=plan)
            if self.abnormal(r0) or self.abnormal(rg) or r0.status != 0 or (rg.status != 0 and all_sound(world)):
                viols.append(Violation(PROP, "C19.run", ["C19.run", "abnormal_end", sub], {"query": q1, "outcome": rg.summary()}))
                return viols
            rows0 = [r[0] for r in r0.rows(1)]
            good_rows = [r[0] for r in rg.rows(1)]
            tprefix = ("[%s] " % target).encode("utf-8")
            other_members = [r for r in good_rows if r.startswith(b"[") and not r.startswith(tprefix)]
            variants = []
            if case.get("only") is not None:
                variants = [tuple(case["only"])]
            elif sub == "trunc":
                variants = [("trunc", n, 0) for n in range(len(good))]
            else:
                rng_ = __import__("random").Random(case["bitseed"])
                cr = self.central_range(good)
                if cr is None:
                    raise CaseInvalid("no end record")
                for off in range(0 if case.get("all_bytes") else cr[0], cr[1]):
                    variants.append(("flip", off, 0xFF))
                    variants.append(("flip", off, 1 << rng_.randrange(8)))
            path_abs = os.path.join(sb.root, target)
            for kind, a, b in variants:
                data = good[:a] if kind == "trunc" else good[:a] + bytes([good[a] ^ b]) + good[a + 1:]
                fd = os.open(path_abs, os.O_WRONLY | os.O_TRUNC)
                try:
                    os.write(fd, data)
                finally:
                    os.close(fd)
                r = sb.run([q1], plan=plan)
                ctx.metric("corrupt_variants")
                bad = self.abnormal(r)
                if bad:
                    viols.append(Violation(PROP, "C19.fault", ["C19.fault", "abnormal_end:" + bad, sub],
                                           {"query": q1, "archive": target, "corruption": [kind, a, b], "archive_len": len(good), "outcome": r.summary(), "only": [kind, a, b]}))
                    break
                # a flipped name byte may put a NUL into a member name of the corrupted archive: fragments that
                # directly follow one of its member rows belong to that (legitimately different) name
                rows = []
                after_target = False
                for x in (y[0] for y in r.rows(1)):
                    if x.startswith(tprefix):
                        after_target = True
                        rows.append(x)
                    elif x.startswith(b"[") or x in set(rows0):
                        after_target = False
                        rows.append(x)
                    elif after_target:
                        continue
                    else:
                        rows.append(x)
                ordinary = [x for x in rows if not x.startswith(b"[")]
                if ordinary != rows0:
                    viols.append(Violation(PROP, "C19.fault", ["C19.fault", "ordinary_rows_changed", sub],
                                           {"query": q1, "archive": target, "corruption": [kind, a, b], "rows": len(ordinary), "want": len(rows0), "only": [kind, a, b]}))
                    break
                om = [x for x in rows if x.startswith(b"[") and not x.startswith(tprefix)]
                if om != other_members:
                    viols.append(Violation(PROP, "C19.fault", ["C19.fault", "other_archive_rows_changed", sub], {"query": q1, "corruption": [kind, a, b], "only": [kind, a, b]}))
                    break
            ctx.metric("corrupt_cases")
            if len(ctx.samples) < 2:
                ctx.samples.append({"argv": [q1], "archive": target, "archive_len": len(good), "variants": len(variants), "kind": sub})
        return viols

    def eval_io(self, case, ctx, nm):
        world, top = case["world"], case["top"]
        target = case["target"]
        good = core.node_bytes(nm[target])
        fromc = " from %s %s" % (top, case["mode"])
        q1 = "select path, size" + fromc + " " + case["arcword"] + " into list"
        q0 = "select path, size" + fromc + " into list"
        viols = []
        plan = dict(case["plan"], budget=20000 + 400 * len(world["nodes"]) + 40 * len(good))
        io = case["io"]
        with ctx.sandbox(world) as sb:
            gen.validate_model(world, sb.root)
            r0 = sb.run([q0], plan=plan)
            rg = sb.run([q1], plan=plan)
            if self.abnormal(r0) or self.abnormal(rg) or r0.status != 0 or (rg.status != 0 and all_sound(world)):
                viols.append(Violation(PROP, "C19.run", ["C19.run", "abnormal_end", io], {"query": q1, "outcome": rg.summary()}))
                return viols
            p = copy.deepcopy(plan)
            if io == "open_EACCES":
                p["fail"] = [{"call": "open", "path": target, "errno": "EACCES"}]
            elif io == "open_EIO":
                p["fail"] = [{"call": "open", "path": target, "errno": "EIO"}]
            elif io == "read_mid":
                p["fail"] = [{"call": "read", "path": target, "errno": "EIO", "arg": int(case["off_frac"] * max(1, len(good) - 1))}]
            elif io == "read_0":
                p["fail"] = [{"call": "read", "path": target, "errno": "EIO", "arg": 0}]
            elif io == "short":
                p["chunks"] = {target: {"cycle": True, "sizes": case["chunks"]}}
            else:
                p["mutate"] = [{"call": "dirent", "path": target, "nth": 1, "action": "unlink", "target": target}]
            r = sb.run([q1], plan=p)
            if len(ctx.samples) < 2:
                ctx.samples.append({"argv": [q1], "fault": io, "outcome": r.summary()})
            bad = self.abnormal(r)
            if bad:
                viols.append(Violation(PROP, "C19.fault", ["C19.fault", "abnormal_end:" + bad, io], {"query": q1, "archive": target, "fault": io, "outcome": r.summary()}))
                return viols
            rows = r.rows(2)
            grows = rg.rows(2)
            tprefix = ("[%s] " % target).encode("utf-8")
            if io == "short":
                # short reads must be masked completely
                if rows != grows or r.status != rg.status:
                    viols.append(Violation(PROP, "C19.fault", ["C19.fault", "short_reads_change_result", io],
                                           {"query": q1, "archive": target, "chunks": case["chunks"], "rows": len(rows), "want": len(grows), "status": r.status}))
                return viols
            keep = [x for x in grows if not x[0].startswith(tprefix)]
            got_keep = [x for x in rows if not x[0].startswith(tprefix)]
            if io == "vanish":
                # the vanished archive's own size column is legitimately empty
                keep = [(x[0], b"" if x[0].decode("utf-8", "replace") == target else x[1]) for x in keep]
                got_keep = [(x[0], b"" if x[0].decode("utf-8", "replace") == target else x[1]) for x in got_keep]
            if got_keep != keep:
                viols.append(Violation(PROP, "C19.fault", ["C19.fault", "other_rows_changed", io],
                                       {"query": q1, "archive": target, "fault": io, "rows": [[b2s(c) for c in x] for x in got_keep[:6]], "want": [[b2s(c) for c in x] for x in keep[:6]]}))
            if io in ("open_EACCES", "open_EIO", "read_0", "vanish") and any(x[0].startswith(tprefix) for x in rows):
                viols.append(Violation(PROP, "C19.fault", ["C19.fault", "members_of_unreadable_archive_listed", io], {"query": q1, "archive": target}))
        return viols

    def exhaustive_note(self, metrics):
        return "every truncation length / every central-directory byte flip: %d corrupted archive variants over %d sampled archives" % (metrics.get("corrupt_variants", 0), metrics.get("corrupt_cases", 0))


CHECK = Check()
