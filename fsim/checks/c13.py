"""C13 — date literals denote intervals; comparisons partition time consistently (simulated clock and zone)."""
import copy
import datetime
import zoneinfo

from .. import gen
from ..core import CaseInvalid
from ..harness import Violation

PROP = "C13"
ZONES = ["UTC", "Europe/Berlin", "America/New_York", "Asia/Kolkata", "Australia/Adelaide", "America/St_Johns", "Pacific/Auckland"]


def dst_transitions(z, year):
    """Epoch seconds of the UTC-offset changes of zone z in `year` (binary search per day)."""
    out = []
    t = int(DT(year, 1, 1, tzinfo=datetime.timezone.utc).timestamp())
    end = int(DT(year + 1, 1, 1, tzinfo=datetime.timezone.utc).timestamp())
    off = lambda x: datetime.datetime.fromtimestamp(x, z).utcoffset()
    while t < end:
        if off(t) != off(t + 86400):
            lo, hi = t, t + 86400
            while hi - lo > 1:
                mid = (lo + hi) // 2
                if off(mid) == off(lo):
                    lo = mid
                else:
                    hi = mid
            out.append(hi)
        t += 86400
    return out
OPS = ["=", "!=", "<", "<=", ">", ">="]
DT = datetime.datetime


def lit_interval(lit):
    """[a, b] naive local interval of an absolute literal {"date":[y,m,d], "h":..,"mi":..,"s":..}."""
    y, m, d = lit["date"]
    h, mi, s = lit.get("h"), lit.get("mi"), lit.get("s")
    a = DT(y, m, d, h or 0, mi or 0, s or 0)
    b = DT(y, m, d, h if h is not None else 23, mi if mi is not None else 59, s if s is not None else 59)
    return a, b


def lit_text(lit):
    sep = lit.get("sep", "-")
    y, m, d = lit["date"]
    t = ("%04d%s%d%s%d" if lit.get("unpadded") else "%04d%s%02d%s%02d") % (y, sep, m, sep, d)
    if lit.get("h") is not None:
        t += " %02d" % lit["h"]
        if lit.get("mi") is not None:
            t += ":%02d" % lit["mi"]
            if lit.get("s") is not None:
                t += ":%02d" % lit["s"]
    return t


def holds(op, t, a, b):
    return {"=": a <= t <= b, "!=": not (a <= t <= b), "<": t < a, ">": t > b, "<=": t <= b, ">=": t >= a}[op]


class Check:
    id = PROP
    level = "exploration"
    cases = {"quick": 4000, "thorough": 40000}
    simulated_time = "per case one simulated instant (frozen, or ticking 1 ms per clock read within one local day) drawn from: seconds around local midnight, DST-change days, 29 Feb, 31 Dec/1 Jan, 31st of a month; zones UTC, Europe/Berlin, America/New_York, Asia/Kolkata"
    rule = ("case = (literal at day/hour/minute/second precision with '-' or ':' date separators, quoted or (day precision) unquoted, or a relative literal today/yesterday/-N/+N) x zone x simulated clock instant "
            "x files whose mtimes sit on the edge grid a-1,a,a+1,b-1,b,b+1 plus month/year/leap boundaries x arrival order; each case runs all six comparison operators. "
            "Non-trivial = simulated clock or non-default order reached fselect; distinct = distinct event-log signature.")
    assumptions = ["interval model in the same zone (Python zoneinfo on the same tzdata)", "a clock that crosses midnight during a run and zones whose DST switch deletes local midnight are outside the statement",
                   "=== and !== are not asserted (the statement does not define them for intervals)"]

    def gen(self, rng, tier, index):
        tz = rng.choice(ZONES)
        z = zoneinfo.ZoneInfo(tz)
        relative = rng.random() < 0.35
        # the simulated instant
        day = rng.choice([[2024, 2, 29], [2023, 12, 31], [2024, 1, 1], [2024, 3, 31], [2024, 3, 10], [2024, 10, 27], [2024, 11, 3], [2023, 5, 31], [2025, 1, 31], [2024, 7, 15], [2023, 3, 1]])
        tod = rng.choice([[0, 0, 0], [0, 0, 1], [23, 59, 58], [23, 59, 59], [12, 0, 0], [2, 30, 0], [3, 0, 0]])
        now_local = DT(day[0], day[1], day[2], tod[0], tod[1], tod[2], tzinfo=z)
        now = int(now_local.timestamp())
        tick = 0
        if rng.random() < 0.25 and tod[0] < 23:
            tick = 10 ** 6
        if relative:
            kind = rng.choice(["today", "yesterday", "minus", "minus", "plus"])
            n = rng.choice([1, 2, 3, 7, 30, 365]) if kind in ("minus", "plus") else 0
            # a bare `+N` is not in the documented sub-language (the lexer reads `+` as an operator; docs show `-2` only): always quoted
            lit = {"rel": kind, "n": n, "quoted": True if kind == "plus" else rng.random() < 0.5}
            today = datetime.datetime.fromtimestamp(now, z).date()
            off = {"today": 0, "yesterday": -1, "minus": -n, "plus": n}[kind]
            d = today + datetime.timedelta(days=off)
            a, b = DT(d.year, d.month, d.day, 0, 0, 0), DT(d.year, d.month, d.day, 23, 59, 59)
        else:
            d = rng.choice([[1969, 12, 31], [1965, 7, 4], [2017, 5, 1], [2020, 2, 29], [2021, 12, 31], [2022, 1, 1], [2019, 3, 31], [2023, 10, 29], [2016, 2, 28], [2024, 6, 30], [1999, 12, 31], [2038, 1, 19]])
            prec = rng.choice(["day", "hour", "minute", "second"])
            lit = {"date": d, "sep": rng.choice(["-", "-", ":"]), "quoted": True, "unpadded": rng.random() < 0.2}
            if prec != "day" and rng.random() < 0.3:
                # a literal whose first second lies in (or next to) the local hour a DST switch repeats or skips: the interval is
                # one of wall-clock readings, which exist as text (and as file times in the repeated hour) whatever the zone rules say
                trs = dst_transitions(z, rng.choice([2021, 2023]))
                if trs:
                    loc = datetime.datetime.fromtimestamp(rng.choice(trs), z)
                    wall = loc.replace(tzinfo=None) + datetime.timedelta(hours=rng.choice([-1, -1, 0, 0, 1]))
                    d = [wall.year, wall.month, wall.day]
                    lit["date"] = d
                    lit["h"] = wall.hour
            if prec != "day" and "h" not in lit:
                lit["h"] = rng.choice([0, 9, 15, 23])
            if prec != "day":
                if prec != "hour":
                    lit["mi"] = rng.choice([0, 10, 59])
                    if prec != "minute":
                        lit["s"] = rng.choice([0, 5, 59])
            else:
                # a bare date is recognised by the lexer for years 1970..2999 only (a documented heuristic): quote the others
                lit["quoted"] = True if d[0] < 1970 else rng.random() < 0.5
            a, b = lit_interval(lit)
        # files on the edge grid
        top = rng.choice(gen.SAFE_ROOTS)
        nodes = [{"path": top, "type": "dir"}, {"path": top + "/sub", "type": "dir"}]
        pts = []
        for base in (a, b):
            for delta in (-1, 0, 1):
                pts.append(base + datetime.timedelta(seconds=delta))
        pts += [a - datetime.timedelta(days=1), b + datetime.timedelta(days=1), a.replace(day=1), DT(a.year, 1, 1), DT(a.year, 12, 31, 23, 59, 59),
                a + datetime.timedelta(hours=12), DT(a.year, a.month, 28, 12, 0, 0) + datetime.timedelta(days=4)]
        stamps = []
        for p in pts:
            if p.year >= 1902:
                stamps.append(int(p.replace(tzinfo=z).timestamp()))
        # instants around the zone's DST switches of the literal's year (skipped and repeated local hours)
        if a.year >= 1971:
            for tr in dst_transitions(z, a.year)[:2]:
                stamps += [tr - 1, tr, tr + 1800, tr - 1800]
        for i, ts in enumerate(stamps):
            nodes.append({"path": top + ("/sub" if i % 3 == 0 else "") + "/f%02d" % i, "type": "file", "content": "x", "mtime": ts * 10 ** 9 + rng.choice([0, 0, 999999999, 500000000, 1])})
        if rng.random() < 0.3 and len(stamps) >= 2:
            # links with a time of their own, pointing at a file (or a directory) on the other side of an interval edge:
            # the entry's own modification time counts, whatever else the query looks at
            files_ = [n for n in nodes if n["type"] == "file"]
            for i in range(rng.choice([1, 2, 4])):
                tgt = rng.choice(files_ + [nodes[1]])
                nodes.append({"path": top + "/l%02d" % i, "type": "symlink", "target": tgt["path"][len(top) + 1:], "mtime": rng.choice(stamps) * 10 ** 9})
        world = {"nodes": nodes}
        for n in world["nodes"]:
            if n["type"] == "dir":
                n["mtime"] = (int(a.replace(tzinfo=z).timestamp()) + rng.choice([-100000, 0, 100000])) * 10 ** 9
        _, plan = gen.gen_env(rng, world)
        plan["clock"] = [now * 10 ** 9 + rng.choice([0, 999999999]), tick]
        # a conjunct that holds for every entry, before or after the date comparison: what it looks at must not change the comparison
        extra = rng.choice([None, None, None, "size >= 0", "(is_binary = true or is_binary = false)", "(is_text = true or is_text = false)",
                            "(is_dir = true or is_dir = false)", "(is_symlink = false or is_symlink = true)"])
        extra_first = rng.random() < 0.6
        if relative and rng.random() < 0.25:
            # torn-read campaign: local midnight falls between the k-th and the (k+1)-th clock read, for every k
            mid = DT(day[0], day[1], day[2], 0, 0, 0, tzinfo=z) + datetime.timedelta(days=1)
            mid = int(DT(mid.year, mid.month, mid.day, 0, 0, 0, tzinfo=z).timestamp())
            return {"sub": "jump", "top": top, "lit": lit, "tz": tz, "midnight": mid, "entropy": plan["entropy"], "kmax": 48}
        return {"world": world, "top": top, "lit": lit, "tz": tz, "plan": plan, "extra": extra, "extra_first": extra_first}

    def sample_view(self, case):
        c = dict(case)
        if "world" in c:
            c["world"] = gen.view_world(case["world"], 25)
        return c

    def shrinks(self, case):
        if case.get("sub") == "jump":
            return
        if case["plan"]["clock"][1]:
            c = copy.deepcopy(case)
            c["plan"]["clock"][1] = 0
            yield c
        if case.get("ops") is None:
            for op in OPS:
                c = copy.deepcopy(case)
                c["ops"] = [op]
                yield c
        if case.get("extra"):
            c = copy.deepcopy(case)
            c["extra"] = None
            yield c

    def literal(self, lit):
        if "rel" in lit:
            t = {"today": "today", "yesterday": "yesterday", "minus": "-%d" % lit["n"], "plus": "+%d" % lit["n"]}[lit["rel"]]
        else:
            t = lit_text(lit)
        return "'%s'" % t if lit["quoted"] else t

    def eval_jump(self, case, ctx):
        """`today`, `yesterday`, offsets denote ONE whole local day even if local midnight passes between two clock reads.
        Two worlds that differ only in one file's mtime (noon of day X, noon of day X+1) run under the same clock plan
        (midnight strikes at the k-th read): whichever day the literal denotes, exactly one of the two files is selected."""
        z = zoneinfo.ZoneInfo(case["tz"])
        lit = case["lit"]
        mid = case["midnight"]
        off = {"today": 0, "yesterday": -1, "minus": -lit["n"], "plus": lit["n"]}[lit["rel"]]
        dayD = datetime.datetime.fromtimestamp(mid - 1, z).date() + datetime.timedelta(days=off)
        top = case["top"]
        ltext = self.literal(lit)
        q = "select path from %s where modified = %s into list" % (top, ltext)
        viols = []
        sel = {}
        ks = [case["only_k"]] if case.get("only_k") is not None else list(range(0, case.get("kmax", 48)))
        for which in (0, 1):
            d = dayD + datetime.timedelta(days=which)
            ts = int(DT(d.year, d.month, d.day, 12, 0, 0, tzinfo=z).timestamp())
            world = {"nodes": [{"path": top, "type": "dir"}, {"path": top + "/f", "type": "file", "content": "x", "mtime": ts * 10 ** 9}]}
            with ctx.sandbox(world) as sb:
                for k in ks:
                    plan = {"entropy": case["entropy"], "clock": [(mid - 1) * 10 ** 9 + 900000000, 0], "clock_jump": [mid * 10 ** 9 + 100000000, k]}
                    res = sb.run([q], plan=plan, tz=case["tz"])
                    if res.sim or res.status != 0 or res.signal is not None:
                        return [Violation(PROP, "C13.run", ["C13.run", "abnormal_end", "jump:" + lit["rel"]], {"query": q, "tz": case["tz"], "k": k, "outcome": res.summary()})]
                    sel[(which, k)] = len(res.rows(1)) == 1
                    ctx.metric("jump_runs")
        for k in ks:
            if sel[(0, k)] == sel[(1, k)]:
                viols.append(Violation(PROP, "C13.rel", ["C13.rel", "literal_spans_two_days_or_none", "jump:" + lit["rel"]],
                                       {"query": q, "tz": case["tz"], "midnight_at_clock_read": k, "only_k": k, "file_day_X_selected": sel[(0, k)], "file_day_X_plus_1_selected": sel[(1, k)],
                                        "day_X": str(dayD)}))
                break
        if not viols and case.get("only_k") is None:
            # the same comparison twice in ONE interactive session (`fselect -i`), midnight striking at the k-th clock read of the
            # session. As above there is one file per world (so each query evaluates the literal once) and two worlds: each query of
            # the session selects the file of exactly one of them (one whole day), the day never goes back, and for some k the first
            # query still sees day X and the second day X+1: a session left open over midnight follows the clock.
            q1 = "select name from %s where modified = %s into list" % (top, ltext)
            q2 = "select path from %s where modified = %s into list" % (top, ltext)
            ans = {}
            for which in (0, 1):
                d = dayD + datetime.timedelta(days=which)
                ts = int(DT(d.year, d.month, d.day, 12, 0, 0, tzinfo=z).timestamp())
                world = {"nodes": [{"path": top, "type": "dir"}, {"path": top + "/f", "type": "file", "content": "x", "mtime": ts * 10 ** 9}]}
                with ctx.sandbox(world) as sb:
                    for k in ks:
                        plan = {"entropy": case["entropy"], "clock": [(mid - 1) * 10 ** 9 + 900000000, 0], "clock_jump": [mid * 10 ** 9 + 100000000, k]}
                        res = sb.run(["-i"], plan=plan, tz=case["tz"], stdin_text=q1 + "\n" + q2 + "\nexit\n")
                        cells = [x for x in res.stdout.split(b"\0") if x]
                        cells = [c for c in cells if c in (b"f", (top + "/f").encode())]  # whatever else a session prints is its own business
                        if res.sim or res.signal is not None or len(cells) != len(set(cells)):
                            return [Violation(PROP, "C13.run", ["C13.run", "abnormal_end", "session:" + lit["rel"]], {"queries": [q1, q2], "tz": case["tz"], "k": k, "outcome": res.summary()})]
                        ans[(which, k)] = (b"f" in cells, (top + "/f").encode() in cells)
                        ctx.metric("jump_session_runs")
            pairs = set()
            for k in ks:
                days = []
                for i in (0, 1):
                    if ans[(0, k)][i] == ans[(1, k)][i]:
                        viols.append(Violation(PROP, "C13.rel", ["C13.rel", "literal_spans_two_days_or_none", "session:" + lit["rel"]],
                                               {"queries": [q1, q2], "tz": case["tz"], "midnight_at_clock_read": k, "query_of_session": i + 1}))
                        return viols
                    days.append(0 if ans[(0, k)][i] else 1)
                if days == [1, 0]:
                    viols.append(Violation(PROP, "C13.rel", ["C13.rel", "day_goes_back_within_a_session", "session:" + lit["rel"]],
                                           {"queries": [q1, q2], "tz": case["tz"], "midnight_at_clock_read": k}))
                    return viols
                pairs.add(tuple(days))
            if (0, 1) not in pairs and (0, 0) in pairs and (1, 1) in pairs:
                viols.append(Violation(PROP, "C13.rel", ["C13.rel", "session_keeps_the_first_query's_day", "session:" + lit["rel"]],
                                       {"queries": [q1, q2], "tz": case["tz"], "day_pairs_seen": sorted(pairs), "k_range": [ks[0], ks[-1]]}))
        if len(ctx.samples) < 2:
            ctx.samples.append({"argv": [q], "tz": case["tz"], "midnight_strikes_at_read": "every k in 0..%d" % (len(ks) - 1)})
        return viols

    def evaluate(self, case, ctx):
        if case.get("sub") == "jump":
            return self.eval_jump(case, ctx)
        world = case["world"]
        top = case["top"]
        nm = gen.node_map(world)
        if top not in nm:
            raise CaseInvalid("root missing")
        z = zoneinfo.ZoneInfo(case["tz"])
        lit = case["lit"]
        now_ns, tick = case["plan"]["clock"]
        if "rel" in lit:
            today = datetime.datetime.fromtimestamp(now_ns // 10 ** 9, z).date()
            off = {"today": 0, "yesterday": -1, "minus": -lit["n"], "plus": lit["n"]}[lit["rel"]]
            d = today + datetime.timedelta(days=off)
            a, b = DT(d.year, d.month, d.day, 0, 0, 0), DT(d.year, d.month, d.day, 23, 59, 59)
            lkind = "relative:" + lit["rel"] + (":quoted" if lit["quoted"] else ":bare")
        else:
            a, b = lit_interval(lit)
            prec = "second" if lit.get("s") is not None else "minute" if lit.get("mi") is not None else "hour" if lit.get("h") is not None else "day"
            lkind = "absolute:" + prec + (":quoted" if lit["quoted"] else ":bare") + (":colon" if lit.get("sep") == ":" else "")
        ltext = self.literal(lit)
        viols = []
        plan = case["plan"]
        plan = dict(plan, budget=5000 + 400 * len(world["nodes"]))
        entries = {}
        for n in world["nodes"]:
            if n["path"] == top:
                continue
            entries[n["path"]] = n
        with ctx.sandbox(world) as sb:
            gen.validate_model(world, sb.root)
            import os
            tloc = {}
            for p in entries:
                st = os.lstat(os.path.join(sb.root, p))
                tloc[p] = datetime.datetime.fromtimestamp(st.st_mtime_ns // 10 ** 9, z).replace(tzinfo=None)
            selected = {}
            for op in case.get("ops") or OPS:
                cond = "modified %s %s" % (op, ltext)
                if case.get("extra"):
                    cond = (case["extra"] + " and " + cond) if case.get("extra_first") else (cond + " and " + case["extra"])
                q = "select path, modified from %s where %s into list" % (top, cond)
                res = sb.run([q], plan=plan, tz=case["tz"])
                if res.sim or res.status != 0 or res.signal is not None:
                    viols.append(Violation(PROP, "C13.run", ["C13.run", "abnormal_end", lkind], {"query": q, "tz": case["tz"], "clock": plan["clock"], "outcome": res.summary()}))
                    return viols
                rows = res.rows(2)
                got = {r[0].decode("utf-8", "replace") for r in rows}
                want = {p for p in entries if holds(op, tloc[p], a, b)}
                selected[op] = got
                if got != want:
                    wrong = sorted(got ^ want)[:4]
                    viols.append(Violation(PROP, "C13.ops", ["C13.ops", op, lkind],
                                           {"query": q, "tz": case["tz"], "clock_ns": plan["clock"], "interval": [str(a), str(b)],
                                            "wrong": [{"path": p, "local_mtime": str(tloc[p]), "selected": p in got, "should_be": p in want} for p in wrong]}))
                    return viols
                for r in rows:
                    p = r[0].decode("utf-8", "replace")
                    w = tloc[p].strftime("%Y-%m-%d %H:%M:%S")
                    if r[1].decode() != w:
                        viols.append(Violation(PROP, "C13.fmt", ["C13.fmt", "modified_column", case["tz"]], {"query": q, "path": p, "got": r[1].decode(), "want": w, "tz": case["tz"]}))
                        return viols
                ctx.metric("operator_runs")
            if not case.get("ops"):
                for p in entries:
                    k = sum(1 for op in ("<", "=", ">") if p in selected[op])
                    if k != 1:
                        viols.append(Violation(PROP, "C13.tri", ["C13.tri", "not_exactly_one", lkind], {"path": p, "local_mtime": str(tloc[p]), "interval": [str(a), str(b)]}))
                        return viols
            if len(ctx.samples) < 2:
                ctx.samples.append({"argv": ["select path, modified from %s where modified OP %s into list" % (top, ltext)], "tz": case["tz"], "clock_ns": plan["clock"], "interval": [str(a), str(b)]})
        return viols


CHECK = Check()
