"""C05 — ORDER BY output is sorted by the requested keys and loses or invents no row."""
import collections
import copy

from .. import gen
from ..core import CaseInvalid
from ..harness import Violation

PROP = "C05"

# key -> (type, expression)
KEYS = {
    "name": "str", "path": "str", "ext": "str",
    "size": "num", "uid": "num", "gid": "num", "hardlinks": "num", "inode": "num", "blocks": "num", "line_count": "num", "length(name)": "num", "size + 1": "num", "size*2": "num", "contains('ab')": "str",
    "modified": "date", "created": "date",
    "day(modified)": "num", "month(modified)": "num", "year(modified)": "num",
}


def gen_ordered_world(rng, tops, big=False):
    def content(rng):
        n = rng.choice([0, 1, 2, 9, 10, 11, 99, 100, 101, 1000, 1001, 12345])
        return ("ab\n" * (n // 3 + 1))[:n]
    world = gen.gen_tree(rng, tops, max_entries=rng.choice([3, 8, 15, 25] + ([40] if big else [])), max_depth=rng.choice([2, 3, 4]),
                         kinds={"file": 10, "dir": 3, "symlink": 1}, adversarial=rng.choice([0, 0.2]), contents=content)
    # equal names in different directories, ties on size
    dirs = [n["path"] for n in world["nodes"] if n["type"] == "dir"]
    have = {n["path"] for n in world["nodes"]}
    for _ in range(rng.choice([0, 2, 4])):
        d = rng.choice(dirs)
        name = rng.choice(["same.txt", "dup", "a10", "a9", "A9", "b.c"])
        if d + "/" + name not in have:
            have.add(d + "/" + name)
            world["nodes"].append({"path": d + "/" + name, "type": "file", "content": "x" * rng.choice([9, 10, 100])})
    if rng.random() < 0.25:
        # a name that is a strict prefix of another whose next character sorts below every printable one (and below any
        # separator a joined multi-key representation might use), in the same and in different directories
        files_ = [n["path"] for n in world["nodes"] if n["type"] == "file"]
        for f in rng.sample(files_, min(len(files_), rng.choice([1, 2, 3]))):
            d_ = rng.choice(dirs) if rng.random() < 0.4 else f.rsplit("/", 1)[0]
            newp = d_ + "/" + f.rsplit("/", 1)[1] + rng.choice(["\t", "\n", "\x01", "\x1e", "\x1f", " "]) + rng.choice(["z", "draft", "0", ""])
            if newp not in have:
                have.add(newp)
                world["nodes"].append({"path": newp, "type": "file", "content": "x" * rng.choice([9, 10, 100])})
    base = 1_600_000_000
    for n in world["nodes"]:
        if rng.random() < 0.7:
            n["mtime"] = (base + rng.choice([0, 1, 59, 60, 86399, 86400, 86400 * 31, 86400 * 366, rng.randrange(0, 10 ** 8)])) * 10 ** 9
    return world


def gen_stat_overlay(rng, world):
    st = {}
    for n in world["nodes"]:
        kv = {}
        if rng.random() < 0.5:
            kv["uid"] = rng.choice([0, 5, 9, 10, 100, 1000, 65534])
        if rng.random() < 0.5:
            kv["gid"] = rng.choice([0, 5, 9, 10, 100, 1000])
        if rng.random() < 0.5:
            kv["nlink"] = rng.choice([1, 2, 9, 10, 11, 100])
        if rng.random() < 0.5:
            kv["blocks"] = rng.choice([0, 8, 16, 80, 96, 104, 1000])
        if rng.random() < 0.6:
            # birth times: an answer some file systems give and others do not (then the `created` column is empty)
            if rng.random() < 0.3:
                kv["nobtime"] = 1
            else:
                kv["btime"] = (1_500_000_000 + rng.choice([0, 1, 86400, 86400 * 40, rng.randrange(0, 10 ** 8)])) * 10 ** 9
        if rng.random() < 0.2:
            # 64-bit answers that differ by less than one f64 ulp
            kv["size"] = rng.choice([2 ** 53, 2 ** 53 + 1, 2 ** 53 + 2, 2 ** 53 + 3, 2 ** 60 + 1, 2 ** 60 + 2, 2 ** 62 + 5, 2 ** 62 + 6])
        if rng.random() < 0.15:
            kv["ino"] = rng.choice([2 ** 53 + 1, 2 ** 61 + 1]) + len(st)  # unique per node (len(st) grows with every overlaid node)
        if kv:
            st[n["path"]] = kv
    return st


def gen_keys(rng):
    nk = rng.choice([1, 1, 2, 2, 3])
    keys = rng.sample(sorted(KEYS), nk)
    if nk >= 2 and rng.random() < 0.15:
        keys[-1] = keys[0]  # a key may be named twice (e.g. once by position, once by name); the later mention is redundant
    return [{"key": k, "desc": rng.random() < 0.4, "asc_word": rng.random() < 0.2} for k in keys]


def order_clause(keys, select_cols, rng_positional):
    parts = []
    for i, k in enumerate(keys):
        if rng_positional[i] and k["key"] in select_cols:
            s = str(select_cols.index(k["key"]) + 1)
        else:
            s = k["key"]
        if k["desc"]:
            s += " desc"
        elif k["asc_word"]:
            s += " asc"
        parts.append(s)
    return " order by " + ", ".join(parts)


def keyval(kind, raw):
    """Typed key value from fselect's own printed value; None when not interpretable (no constraint then)."""
    if kind == "date" and raw == b"":
        return None  # no birth time on this file system: no stated position
    if kind == "num":
        try:
            return int(raw)  # exact: 2^53 and 2^53 + 1 are different keys
        except ValueError:
            pass
        try:
            return float(raw)
        except ValueError:
            return None
    return raw


def sorted_violation(rows_keys, keys):
    """rows_keys: list of tuples of raw key values (bytes) per row in output order."""
    for i in range(len(rows_keys) - 1):
        a, b = rows_keys[i], rows_keys[i + 1]
        for j, k in enumerate(keys):
            kind = KEYS[k["key"]]
            x, y = keyval(kind, a[j]), keyval(kind, b[j])
            if x is None or y is None:
                break  # no stated order for a value that is not of the key's type
            if x == y:
                continue
            ok = (x > y) if k["desc"] else (x < y)
            if not ok:
                return i, j
            break
    return None


class Check:
    id = PROP
    level = "exploration"
    cases = {"quick": 10000, "thorough": 120000}
    rule = ("case = (tree with ties, sizes 9/10/100/1000, equal names in different directories, mtimes across days, overlaid uid/gid/nlink) x (1-3 ORDER BY keys over string/numeric/date columns and "
            "integer expressions, asc/desc, positional or explicit, selected or not, optional WHERE) x E (arrival order class incl. key-ascending/key-descending, DT_UNKNOWN, inode renumbering, hash seed). "
            "Each case = unordered run + ordered run of the same world and E. Non-trivial = a non-default environment choice reached fselect; distinct = distinct event-log signature.")
    assumptions = ["key values are fselect's own values for the same entry (from the unordered run: relational), typed as the documentation says",
                   "a key value that is not of the key's type (empty line_count of a directory) carries no ordering constraint"]

    def gen(self, rng, tier, index):
        tops = rng.sample(gen.SAFE_ROOTS, rng.choice([1, 1, 2]))
        world = gen_ordered_world(rng, tops)
        keys = gen_keys(rng)
        selected = [k["key"] for k in keys if rng.random() < 0.6]
        positional = [rng.random() < 0.3 for _ in keys]
        for i_, k_ in enumerate(keys):
            if k_["key"] == "size*2" and rng.random() < 0.7:
                # an expression column is reliably addressed by its position in the select list
                positional[i_] = True
                if k_["key"] not in selected:
                    selected.append(k_["key"])
        where = rng.choice([None, None, "size > 9", "size >= 10", "name != 'dup'"])
        # arrival order: sometimes adversarial w.r.t. the first key
        nm = gen.node_map(world)
        k0 = keys[0]["key"]
        cls = rng.choice(["random", "random", "sorted", "reversed", "key_asc", "key_desc", "key_strasc", "key_strasc"])

        def keyf(node):
            if k0 in ("size", "size + 1"):
                return len(node.get("content", ""))
            if k0 == "length(name)":
                return len(node["path"].rsplit("/", 1)[-1])
            if k0 == "modified":
                return node.get("mtime", 0)
            return node["path"].rsplit("/", 1)[-1]
        if cls == "key_strasc":
            # already ascending when the key values are compared as plain strings (100, 25, 3, 7), whatever the key's type
            _, orders = gen.gen_orders(rng, world, cls="key_asc", key=lambda nd: str(keyf(nd)))
        else:
            _, orders = gen.gen_orders(rng, world, cls=cls, key=keyf)
        _, plan = gen.gen_env(rng, world)
        plan["order"] = orders
        st = gen_stat_overlay(rng, world)
        for p, kv in st.items():
            plan.setdefault("stat", {}).setdefault(p, {}).update(kv)
        roots = [{"top": t, "mode": rng.choice(["bfs", "dfs"])} for t in tops]
        if rng.random() < 0.15:
            # `symlinks`: a directory reachable both directly and through a link that sits elsewhere (often shallower); which
            # path text its entries are printed under depends on the walk, and the walk must not depend on ORDER BY
            import os as _os
            have = {n["path"] for n in world["nodes"]}
            added = False
            for r in roots:
                ds = [n["path"] for n in world["nodes"] if n["type"] == "dir" and n["path"].startswith(r["top"] + "/")]
                for i in range(rng.choice([1, 2])):
                    if not ds:
                        break
                    tgt = rng.choice(ds)
                    homes = [d for d in [r["top"]] + ds if not (tgt + "/").startswith(d + "/") or d == r["top"]]
                    home = rng.choice(homes)
                    if (home + "/").startswith(tgt + "/"):
                        continue
                    lp = "%s/zl%d" % (home, i)
                    if lp in have:
                        continue
                    have.add(lp)
                    world["nodes"].append({"path": lp, "type": "symlink", "target": _os.path.relpath(tgt, home)})
                    added = True
                if added:
                    r["mode"] += " symlinks"
            if added:
                # the new links need a place in the arrival orders
                _, plan2 = gen.gen_env(rng, world)
                plan["order"] = plan2.get("order", {})
        if rng.random() < 0.12:
            plan["tty"] = True  # stdout is a terminal: fselect colourises the name column (LS_COLORS-style), which must not touch the order
        tz = rng.choice(["UTC", "Europe/Berlin", "Asia/Kolkata", "America/New_York"])
        if rng.random() < 0.5:
            # modification times inside the skipped and the repeated local hour of the zone's DST switches
            import zoneinfo
            from .c13 import dst_transitions
            trs = dst_transitions(zoneinfo.ZoneInfo(tz), rng.choice([2021, 2023]))
            for n in world["nodes"]:
                if trs and rng.random() < 0.5:
                    n["mtime"] = (rng.choice(trs) + rng.choice([-3600, -1800, -1, 0, 1, 900, 1800, 3599, 3600, 5400])) * 10 ** 9
        return {"world": world, "roots": roots, "keys": keys, "selected": selected, "positional": positional, "where": where, "plan": plan,
                "order_class": cls, "tz": tz, "session": rng.random() < 0.08}

    def sample_view(self, case):
        c = dict(case)
        c["world"] = gen.view_world(case["world"], 25)
        return c

    def shrinks(self, case):
        if len(case["keys"]) > 1:
            for i in range(len(case["keys"])):
                c = copy.deepcopy(case)
                k = c["keys"].pop(i)
                c["positional"].pop(i)
                c["selected"] = [s for s in c["selected"] if s != k["key"]]
                yield c
        if case.get("session"):
            c = copy.deepcopy(case)
            c["session"] = False
            yield c
        if case["where"]:
            c = copy.deepcopy(case)
            c["where"] = None
            yield c
        if case["selected"]:
            c = copy.deepcopy(case)
            c["selected"] = []
            c["positional"] = [False] * len(c["keys"])
            yield c
        if len(case["roots"]) > 1:
            for i in range(len(case["roots"])):
                c = copy.deepcopy(case)
                del c["roots"][i]
                yield c
        if case.get("tz") != "UTC":
            c = copy.deepcopy(case)
            c["tz"] = "UTC"
            yield c

    def evaluate(self, case, ctx):
        world = case["world"]
        nm = gen.node_map(world)
        for r in case["roots"]:
            if r["top"] not in nm:
                raise CaseInvalid("root missing")
        keys = case["keys"]
        if not keys:
            raise CaseInvalid("no keys")
        viols = []
        fromc = " from " + ", ".join("%s %s" % (r["top"], r["mode"]) for r in case["roots"])
        wherec = (" where " + case["where"]) if case["where"] else ""
        sel = ["path"] + [k for k in case["selected"]]
        allk = [k["key"] for k in keys]
        with ctx.sandbox(world) as sb:
            gen.validate_model(world, sb.root)
            # unordered run reporting fselect's own key values for every entry
            q0 = "select " + ", ".join(["path"] + allk) + fromc + wherec + " into list"
            r0 = sb.run([q0], plan=case["plan"], tz=case["tz"])
            q1 = "select " + ", ".join(sel) + fromc + wherec + order_clause(keys, sel, case["positional"]) + " into list"
            r1 = sb.run([q1], plan=case["plan"], tz=case["tz"])
            if len(ctx.samples) < 2:
                ctx.samples.append({"argv": [q1], "unordered": q0, "outcome": r1.summary()})
            ksig = "+".join(KEYS[k["key"]] + ("-" if k["desc"] else "") for k in keys)
            if case.get("session") and not case["plan"].get("tty") and not any(c in q1 for c in "\n\r"):
                # the same query as the second one of an interactive session (`fselect -i`, queries on standard input), after an
                # ordered query whose keys are of another kind: nothing may be carried over from one query to the next
                kp = "size" if KEYS[keys[0]["key"]] != "num" else "name"
                qp = "select path" + fromc + " order by %s, path into list" % kp
                rp = sb.run([qp], plan=case["plan"], tz=case["tz"])
                rs = sb.run(["-i"], plan=case["plan"], tz=case["tz"], stdin_text=qp + "\n" + q1 + "\nexit\n")
                if not (rp.sim or rp.status != 0 or r1.sim or r1.status != 0):
                    # (the two outputs must appear in this order; what an interactive session prints around them is its own business)
                    i_ = rs.stdout.find(rp.stdout)
                    if rs.sim or rs.signal is not None or i_ < 0 or rs.stdout.find(r1.stdout, i_ + len(rp.stdout)) < 0:
                        viols.append(Violation(PROP, "C05.session", ["C05.session", "second_query_of_a_session_differs", ksig],
                                               {"first": qp, "second": q1, "outcome": rs.summary(), "one_shot_bytes": len(rp.stdout) + len(r1.stdout), "session_bytes": len(rs.stdout)}))
                        return viols
                    ctx.metric("sessions")
            for r, q in ((r0, q0), (r1, q1)):
                if r.sim or r.status != 0 or r.signal is not None:
                    viols.append(Violation(PROP, "C05.run", ["C05.run", "abnormal_end", ksig], {"query": q, "outcome": r.summary()}))
                    return viols
            rows0 = r0.rows(1 + len(allk))
            rows1 = r1.rows(len(sel))
            if case["plan"].get("tty"):
                import re as _re
                strip = lambda rows: [tuple(_re.sub(rb"\x1b\[[0-9;]*m", b"", c) for c in row) for row in rows]
                rows0, rows1 = strip(rows0), strip(rows1)
            by_path = {}
            for row in rows0:
                by_path.setdefault(row[0], []).append(row[1:])
            # C05.perm: same multiset of rows as the unordered query (projected on the ordered query's columns)
            proj0 = collections.Counter()
            for row in rows0:
                proj0[tuple([row[0]] + [row[1 + allk.index(s)] for s in case["selected"]])] += 1
            got = collections.Counter(rows1)
            if got != proj0:
                viols.append(Violation(PROP, "C05.perm", ["C05.perm", "rows_differ", ksig],
                                       {"ordered": q1, "unordered": q0, "lost": [[x.decode("utf-8", "replace") for x in r] for r in list((proj0 - got).elements())[:4]],
                                        "invented": [[x.decode("utf-8", "replace") for x in r] for r in list((got - proj0).elements())[:4]]}))
                return viols
            seq = []
            for row in rows1:
                kv = by_path.get(row[0])
                if not kv:
                    raise CaseInvalid("row without key values")
                seq.append(kv[0])
            bad = sorted_violation(seq, keys)
            if bad:
                i, j = bad
                byname = [k["key"] for jj, k in enumerate(keys) if not (case["positional"][jj] and k["key"] in sel)]
                if any(" + " in k["key"] for k in keys):
                    sig = ["C05.sorted", "arithmetic_key_with_spaces", "-"]
                elif "size*2" in byname:
                    sig = ["C05.sorted", "arithmetic_key_written_out", "-"]
                else:
                    sig = ["C05.sorted", keys[j]["key"], "desc" if keys[j]["desc"] else "asc"]
                viols.append(Violation(PROP, "C05.sorted", sig,
                                       {"query": q1, "row_i": rows1[i][0].decode("utf-8", "replace"), "row_next": rows1[i + 1][0].decode("utf-8", "replace"),
                                        "keys_i": [x.decode("utf-8", "replace") for x in seq[i]], "keys_next": [x.decode("utf-8", "replace") for x in seq[i + 1]],
                                        "key_list": [(k["key"], "desc" if k["desc"] else "asc") for k in keys]}))
        return viols


CHECK = Check()
