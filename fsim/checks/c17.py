"""C17 — one failing directory, file or reader never spoils the rest of the search.

Three sub-campaigns (chosen per case from the seed):
  A  a directory cannot be listed (errors at opendir/realpath, vanish / replaced-by-file races, mid-stream readdir error)
  B  a file's content or a link target cannot be read (open/read errors at byte offsets, vanish, FIFO without writer)
  C  the consumer closes stdout after W bytes, for every W in 0..L, in all six formats and four result paths
"""
import collections
import copy
import re
import urllib.parse

from .. import gen
from ..core import CaseInvalid
from ..harness import Violation

PROP = "C17"
FORMATS = ["tabs", "lines", "list", "csv", "json", "html"]
CONTENT_COLS = ["sha1", "sha256", "sha512", "sha3", "line_count", "is_shebang", "contains('ab')", "has_xattrs", "capabilities"]
XCOLS = ("has_xattrs", "capabilities")  # need the file opened, not read

_ERR = re.compile(r"^\d+ (opendir|realpath|readdir|lstat|stat) (\S+) (\S+) (?:@\d+ )?-> err (\d+)")
_MUT = re.compile(r"^\d+ mutate (\w+) after (\w+) (\S+) inj:mutate")


def unq(s):
    return urllib.parse.unquote(s, errors="surrogateescape")


def lz(t):
    """Bytes fselect prints for a path: invalid UTF-8 becomes U+FFFD."""
    return t.encode("utf-8", "surrogateescape").decode("utf-8", "replace").encode("utf-8")


def as_world_path(given, noderel):
    """World-relative path of the object a logged call was about."""
    if noderel != "-":
        p = unq(noderel)
        return "" if p == "." else p
    g = unq(given)
    if g.startswith("$W/"):
        g = g[3:]
    elif g == "$W":
        g = ""
    while g.startswith("./"):
        g = g[2:]
    return g


def spelled(root, rel):
    return root["sp"] + ("/" + rel if rel else "")


def crashy(res):
    """No crash report / abnormal end: status in {0,1}, no signal, no panic text, within the step budget."""
    if res.sim:
        return res.sim
    if res.signal is not None:
        return "signal_%d" % res.signal
    if b"panicked at" in res.stderr:
        return "panic"
    if res.status not in (0, 1):
        return "status_%s" % res.status
    return None


class Check:
    id = PROP
    level = "fault_enumeration"
    cases = {"quick": 2000, "thorough": 20000}
    rule = ("case = (random tree, query, environment E) + fault sequence. A: 1-3 directories made unlistable (opendir EACCES/ENOENT/ENOTDIR[/EIO/EMFILE], realpath error, "
            "vanish or replaced-by-file race after being listed or between canonicalize and open, mid-stream readdir error), for streamed/ordered/aggregated queries, bfs/dfs, "
            "each with a fault-free control run of the same world and E. B: a file's open fails (EACCES/EIO/ELOOP/ENOENT-by-race) or read fails at byte offset 0/middle/last, "
            "or short reads only, or a FIFO without writer; content columns vs metadata columns vs aggregates; oracle relational to the fault-free run. "
            "C: for a sampled (world, query, format in six, result path in streamed/ordered/aggregate/grouped) the fault-free stream S of length L, then EVERY close offset W in 0..L "
            "(out_epipe W), plus short-write schedules. Non-trivial = an injected fault or non-default environment choice actually fired in the execution (from the event log); "
            "distinct = distinct event-log signature.")
    assumptions = ["permission faults are injected at the seam (the harness runs as root), never provoked with chmod",
                   "A/B queries select path/name (+ content columns in B); for races the vanished entry's own metadata is not compared",
                   "stderr closure, ENOSPC, EINTR and allocation failure are out of scope (DESIGN 7)"]

    # ------------------------------------------------------------------ generation
    def gen(self, rng, tier, index):
        r = rng.random()
        if r < 0.38:
            return self.gen_a(rng, tier)
        if r < 0.70:
            return self.gen_b(rng, tier)
        if r < 0.92:
            return self.gen_c(rng, tier)
        return self.gen_d(rng, tier)

    def gen_d(self, rng, tier):
        """Alignment sweep: which write() finds std's 1 KiB stdout buffer full depends on the byte alignment of the
        stream, not only on the close offset. One leading entry's name grows byte by byte, shifting every later piece."""
        top = rng.choice(gen.SAFE_ROOTS)
        nodes = [{"path": top, "type": "dir"}]
        n = rng.randint(60, 110)
        for i in range(n):
            nodes.append({"path": "%s/f%03d%s" % (top, i, "".join(rng.choice("abcxyz\u00fc\u65e5") for _ in range(rng.randint(0, 8)))), "type": "file", "content": "x" * rng.choice([0, 5, 10, 100])})
        nodes.append({"path": top + "/0", "type": "file", "content": ""})
        world = {"nodes": nodes}
        plan = {"entropy": rng.getrandbits(48), "clock": [1700000000 * 10 ** 9, 0], "order": {top: ["0"]}}
        return {"sub": "D", "world": world, "roots": [{"top": top, "kind": "rel", "mind": 0, "maxd": 0, "mode": "bfs"}], "plan": plan, "format": rng.choice(FORMATS),
                "shape": rng.choice(["streamed", "ordered"]), "cols": rng.choice([["path"], ["path", "size"], ["name", "path"]]), "shifts": 44}

    def gen_roots(self, rng, world, tops):
        roots = []
        maxlvl = max([n["path"].count("/") for n in world["nodes"]] + [1])
        for t in tops:
            roots.append({"top": t, "kind": rng.choice(["rel", "rel", "dotrel", "abs"]),
                          # ignore-file handling switched on although no ignore file exists: must change nothing
                          # likewise `archives` although no file is an archive (some directories have archive-like names)
                          "ign": rng.choice(["", "", "", "", "hg", "docker", "hgignore dockerignore", "git", "archives", "archives"]),
                          # depth windows anywhere in the tree: a level miscounted after a fault only shows at a window border
                          "mind": 0 if rng.random() < 0.4 else rng.randint(1, maxlvl + 1), "maxd": 0 if rng.random() < 0.4 else rng.randint(1, maxlvl + 2),
                          "mode": rng.choice(["bfs", "dfs"])})
        return roots

    def gen_many(self, rng, tier):
        """Counters have widths: a number of failures around 2^8 / 2^9 in one run."""
        top = rng.choice(gen.SAFE_ROOTS)
        n = rng.choice([255, 256, 256, 257, 512])
        nodes = [{"path": top, "type": "dir"}]
        faults = []
        for i in range(n):
            nodes.append({"path": "%s/u%03d" % (top, i), "type": "dir"})
            faults.append({"fail": {"call": "opendir", "path": "%s/u%03d" % (top, i), "errno": "EACCES"}})
        nodes.append({"path": top + "/ok", "type": "dir"})
        nodes.append({"path": top + "/ok/f.txt", "type": "file", "content": "x"})
        world = {"nodes": nodes}
        plan = {"entropy": rng.getrandbits(48), "clock": [1700000000 * 10 ** 9, 0]}
        return {"sub": "A", "world": world, "roots": [{"top": top, "kind": "rel", "mind": 0, "maxd": 0, "mode": rng.choice(["bfs", "dfs"])}], "plan": plan,
                "faults": faults, "shape": rng.choice(["streamed", "count"])}

    def gen_a(self, rng, tier):
        if rng.random() < 0.012:
            return self.gen_many(rng, tier)
        nroots = rng.choice([1, 1, 2])
        tops = rng.sample(gen.SAFE_ROOTS, nroots)
        world = gen.gen_tree(rng, tops, max_entries=rng.choice([6, 12, 25, 40]), max_depth=rng.choice([3, 4, 6]),
                             kinds={"file": 6, "dir": 6, "symlink": 1, "fifo": 0.3, "sock": 0.2}, adversarial=rng.choice([0, 0.2]))
        roots = self.gen_roots(rng, world, tops)
        if any("archives" in r["ign"] for r in roots):
            gen.zipify(rng, world, keep=set(tops))
        _, env = gen.gen_env(rng, world)
        # directories the walk will open
        opened = []
        for r in roots:
            opened.append(r["top"])
            for rel, node, lvl in gen.ref_walk(world, r["top"]):
                if node["type"] == "dir" and (r["maxd"] == 0 or lvl < r["maxd"]):
                    opened.append(node["path"])
        k = rng.choice([1, 1, 1, 2, 2, 3])
        targets = rng.sample(opened, min(k, len(opened)))
        if rng.random() < 0.06 and all(r["maxd"] == 0 for r in roots):
            # a directory whose name is not valid UTF-8 (a Latin-1 name on a UTF-8 system) fails: it is still named, lossily
            bad = tops[0] + "/caf\udce9"
            world["nodes"].append({"path": bad, "type": "dir"})
            world["nodes"].append({"path": bad + "/inside", "type": "file", "content": "x"})
            targets.append(bad)
        if rng.random() < 0.15:
            targets.append(rng.choice(tops))
        faults = []
        errs = ["EACCES", "ENOENT", "ENOTDIR"] + (["EIO", "EMFILE"] if tier == "thorough" else [])
        for d in dict.fromkeys(targets):
            isroot = d in tops
            # (a root cannot vanish after being listed by a parent, but its own listing can fail half-way or at its very end)
            kinds = ["opendir", "opendir", "realpath_fail", "unsearchable", "readdir_mid"] + ([] if isroot else ["vanish_listed", "replaced_listed", "vanish_after_canon", "readdir_mid"])
            kind = rng.choice(kinds)
            if kind == "unsearchable":
                # the directory can be read but not searched (r--): its entries are listed, but every access *through* it
                # (lstat, realpath, opendir, open of a child) is refused
                kids = [n["path"] for n in world["nodes"] if "/" in n["path"] and n["path"].rsplit("/", 1)[0] == d]
                for c in kids:
                    for call in ("stat", "realpath", "opendir", "open"):
                        faults.append({"fail": {"call": call, "path": c, "errno": "EACCES"}, "unsearchable_parent": d})
                continue
            if kind == "opendir":
                e = rng.choice(errs)
                faults.append({"fail": {"call": "opendir", "path": d, "errno": e}})
                if e != "ENOTDIR" and rng.random() < 0.7:
                    # a directory that cannot be opened for listing cannot be opened as a file either
                    faults.append({"fail": {"call": "open", "path": d, "errno": e}})
            elif kind == "realpath_fail":
                # the directory is gone / beyond an unsearchable component: every way of reaching it fails alike
                # (a failing realpath alone would not make a directory unlistable: a walker need not canonicalise)
                e = rng.choice(["ENOENT", "EACCES"])
                for call in ("realpath", "opendir", "stat"):
                    faults.append({"fail": {"call": call, "path": d, "errno": e}, "group": "unreachable:" + d})
            elif kind == "vanish_listed":
                faults.append({"mutate": {"call": "dirent", "path": d, "nth": 1, "action": "rmtree", "target": d}})
            elif kind == "replaced_listed":
                faults.append({"mutate": {"call": "dirent", "path": d, "nth": 1, "action": "replace", "target": d}})
            elif kind == "vanish_after_canon":
                faults.append({"mutate": {"call": "realpath", "path": d, "nth": 1, "action": "rmtree", "target": d}})
            else:
                nkids = sum(1 for n in world["nodes"] if "/" in n["path"] and n["path"].rsplit("/", 1)[0] == d)
                # the error either hits one block of the listing (reading on works) or ends the listing there
                faults.append({"fail": {"call": "readdir", "path": d, "errno": "EIO", "arg": rng.randint(0, max(0, nkids - (0 if rng.random() < 0.3 else 1))), "then_end": rng.random() < 0.5}})
        shape = rng.choice(["streamed", "streamed", "ordered", "count", "name", "attrs"])
        if rng.random() < 0.08 and not ({tops[0] + "/hollow_q", tops[0] + "/full_q"} & {n["path"] for n in world["nodes"]}):
            # an empty directory whose listing fails (the error can only strike where the listing would have ended) and a
            # non-empty one whose listing fails before its first entry: what a column derives from the listing may be missing, never wrong
            world["nodes"].append({"path": tops[0] + "/hollow_q", "type": "dir"})
            world["nodes"].append({"path": tops[0] + "/full_q", "type": "dir"})
            world["nodes"].append({"path": tops[0] + "/full_q/one", "type": "file", "content": "1"})
            world["nodes"].append({"path": tops[0] + "/full_q/two", "type": "dir"})
            for d_ in rng.sample(["hollow_q", "full_q"], rng.choice([1, 2])):
                faults.append({"fail": {"call": "readdir", "path": tops[0] + "/" + d_, "errno": "EIO", "arg": 0, "then_end": rng.random() < 0.5}})
            shape = "attrs"
        return {"sub": "A", "world": world, "roots": roots, "plan": env, "faults": faults, "shape": shape}

    def gen_b(self, rng, tier):
        tops = [rng.choice(gen.SAFE_ROOTS)]

        def content(rng):
            c = rng.random()
            if c < 0.15:
                return ""
            n = rng.choice([1, 2, 3, 10, 50, 300, 5000, 9000, 40000]) if c < 0.9 else rng.choice([8192, 8193, 32768, 32769, 70000])
            base = rng.choice(["ab\n", "#!/bin/sh\nab\n", "x", "line\n\n", "zzab"])
            return (base * (n // len(base) + 1))[:n]

        world = gen.gen_tree(rng, tops, max_entries=rng.choice([4, 8, 16]), max_depth=3,
                             kinds={"file": 10, "dir": 2, "symlink": 1.5}, adversarial=0.1, contents=content)
        files = [n["path"] for n in world["nodes"] if n["type"] == "file"]
        if not files:
            world["nodes"].append({"path": tops[0] + "/f0.txt", "type": "file", "content": "#!ab\nab\n"})
            files = [tops[0] + "/f0.txt"]
        roots = [{"top": tops[0], "kind": rng.choice(["rel", "dotrel", "abs"]), "mind": 0, "maxd": 0, "mode": rng.choice(["bfs", "dfs"]),
                  "ign": rng.choice(["", "", "", "hg", "docker"])}]
        _, env = gen.gen_env(rng, world)
        nm = gen.node_map(world)
        for f in files:
            # real extended attributes, so that has_xattrs / capabilities have something to lose or to leak
            if rng.random() < 0.4:
                nm[f]["xattrs"] = rng.choice([{"user.k": "v"}, {"security.capability": "\x01\x00\x00\x02\x00\x04\x00\x00\x00\x00\x00\x00\x00\x00\x00\x00\x00\x00\x00\x00"},
                                              {"security.capability": "\x00\x00\x00\x02\x01\x00\x00\x00\x01\x00\x00\x00\x00\x01\x00\x00\x00\x00\x00\x00", "user.z": ""}])
        faults = []
        kind = rng.choice(["open", "open", "read", "read", "short_only", "vanish", "fifo", "dangling", "readlink", "lstat_fail", "vanish_before_stat"])
        if kind == "fifo":
            world["nodes"].append({"path": tops[0] + "/pipe0", "type": "fifo"})
        elif kind == "dangling":
            world["nodes"].append({"path": tops[0] + "/dang0", "type": "symlink", "target": "nowhere/at_all"})
        elif kind == "readlink":
            # a link to a directory whose target text cannot be read (EACCES/EIO/EINVAL-by-race are what readlink(2) can return)
            world["nodes"].append({"path": tops[0] + "/tdir", "type": "dir"})
            world["nodes"].append({"path": tops[0] + "/tdir/inside.txt", "type": "file", "content": "ab\n"})
            world["nodes"].append({"path": tops[0] + "/lnk0", "type": "symlink", "target": "tdir"})
            faults.append({"fail": {"call": "readlink", "path": tops[0] + "/lnk0", "errno": rng.choice(["EACCES", "EIO"])}})
        else:
            for f in rng.sample(files, min(len(files), rng.choice([1, 1, 2]))):
                size = len(nm[f].get("content", ""))
                if kind == "open":
                    faults.append({"fail": {"call": "open", "path": f, "errno": rng.choice(["EACCES", "EIO", "ELOOP", "ENOENT"])}})
                elif kind == "read":
                    if size == 0:
                        faults.append({"fail": {"call": "open", "path": f, "errno": "EACCES"}})
                    else:
                        off = rng.choice([0, size // 2, size - 1])
                        faults.append({"fail": {"call": "read", "path": f, "errno": "EIO", "arg": off}})
                elif kind == "vanish":
                    faults.append({"mutate": {"call": "stat", "path": f, "nth": 1, "action": "unlink", "target": f}})
                elif kind == "lstat_fail":
                    faults.append({"fail": {"call": "stat", "path": f, "errno": rng.choice(["EACCES", "EIO", "ENOENT"])}})
                elif kind == "vanish_before_stat":
                    faults.append({"mutate": {"call": "dirent", "path": f, "nth": 1, "action": "unlink", "target": f}})
        chunks = {}
        if kind == "short_only" or rng.random() < 0.3:
            for f in files:
                if rng.random() < 0.7:
                    chunks[f] = {"cycle": True, "sizes": rng.choice([[1], [2, 1], [7], [8191, 2], [4096], [rng.randint(1, 9000) for _ in range(4)]])}
        cols = rng.sample(CONTENT_COLS, 1 if kind == "fifo" else rng.choice([1, 2, 3, 7]))
        shape = rng.choice(["rows", "rows", "rows", "agg"])
        return {"sub": "B", "world": world, "roots": roots, "plan": env, "faults": faults, "chunks": chunks, "cols": cols, "shape": shape, "kind": kind,
                "datecol": rng.choice([None, "modified", "accessed", "created"])}

    def gen_c(self, rng, tier):
        tops = [rng.choice(gen.SAFE_ROOTS)]
        world = gen.gen_tree(rng, tops, max_entries=rng.choice([0, 1, 3, 6, 10, 25, 40]) if tier == "quick" else rng.choice([0, 2, 6, 12, 30, 60]), max_depth=3,
                             kinds={"file": 8, "dir": 3, "symlink": 1}, adversarial=rng.choice([0, 0.3]))
        if rng.random() < 0.5:
            # multi-byte names: a short write or a closed pipe may cut the stream inside a character
            have = {n["path"] for n in world["nodes"]}
            for nm_ in rng.sample(["\u00fc", "\u65e5\u672c\u8a9e.txt", "\u00e9.c", "na\u00efve \u2603", "\U0001f600.md", "\u00df\u00df\u00df", "z\u0301"], rng.choice([2, 4, 7])):
                if tops[0] + "/" + nm_ not in have:
                    world["nodes"].append({"path": tops[0] + "/" + nm_, "type": "file", "content": "x"})
        roots = [{"top": tops[0], "kind": "rel", "mind": 0, "maxd": 0, "mode": rng.choice(["bfs", "dfs"])}]
        _, env = gen.gen_env(rng, world)
        return {"sub": "C", "world": world, "roots": roots, "plan": env, "format": rng.choice(FORMATS),
                "shape": rng.choice(["streamed", "ordered", "agg", "grouped"]), "cols": rng.choice([["path"], ["name", "size"], ["path", "size", "ext"]]),
                "short": {"cycle": True, "sizes": rng.choice([[1], [3, 1], [100], [1023, 1], [rng.randint(1, 50) for _ in range(5)]])},
                "maxL": 700 if tier == "quick" else 3000, "nrand": 60 if tier == "quick" else 300}

    def sample_view(self, case):
        c = dict(case)
        c["world"] = gen.view_world(case["world"], 25)
        return c

    def shrinks(self, case):
        if case["sub"] == "D" and not case.get("only_k"):
            for k in range(1, case.get("shifts", 44) + 1):
                c = copy.deepcopy(case)
                c["only_k"] = k
                yield c
        for i in range(len(case.get("faults", []))):
            c = copy.deepcopy(case)
            del c["faults"][i]
            yield c
        if case.get("chunks"):
            c = copy.deepcopy(case)
            c["chunks"] = {}
            yield c
        if len(case.get("cols", [])) > 1:
            for i in range(len(case["cols"])):
                c = copy.deepcopy(case)
                del c["cols"][i]
                yield c
        for i, r in enumerate(case["roots"]):
            if len(case["roots"]) > 1:
                c = copy.deepcopy(case)
                del c["roots"][i]
                yield c
            for k, v in (("mind", 0), ("maxd", 0), ("mode", "bfs"), ("kind", "rel"), ("ign", "")):
                if r.get(k, v) != v:
                    c = copy.deepcopy(case)
                    c["roots"][i][k] = v
                    yield c

    # ------------------------------------------------------------------ helpers
    def roots_sp(self, case, sbroot):
        out = []
        nm = gen.node_map(case["world"])
        for r in case["roots"]:
            if r["top"] not in nm or nm[r["top"]]["type"] != "dir":
                raise CaseInvalid("root missing")
            sp = {"rel": r["top"], "dotrel": "./" + r["top"], "abs": sbroot + "/" + r["top"]}[r["kind"]]
            out.append(dict(r, sp=sp))
        return out

    def from_clause(self, roots):
        parts = []
        for r in roots:
            s = r["sp"]
            if r["mind"]:
                s += " mindepth %d" % r["mind"]
            if r["maxd"]:
                s += " maxdepth %d" % r["maxd"]
            s += " " + r["mode"]
            if r.get("ign"):
                s += " " + r["ign"]
            parts.append(s)
        return " from " + ", ".join(parts)

    @staticmethod
    def link_target(nm, wpath):
        import os
        node, tgt, hops = nm.get(wpath), wpath, 0
        while node is not None and node["type"] == "symlink" and hops < 8:
            tgt = os.path.normpath(os.path.join(os.path.dirname(tgt), node["target"]))
            node = nm.get(tgt)
            hops += 1
        return tgt

    def plan_with(self, case, faults=True):
        p = copy.deepcopy(case["plan"])
        nm = gen.node_map(case["world"])
        if faults:
            for f in case.get("faults", []):
                tgt = (f.get("fail") or f.get("mutate"))["path"]
                if tgt not in nm:
                    continue
                if "fail" in f:
                    p.setdefault("fail", []).append(f["fail"])
                else:
                    p.setdefault("mutate", []).append(f["mutate"])
        if case.get("chunks"):
            p["chunks"] = {k: v for k, v in case["chunks"].items() if k in nm}
        total = sum(len(n.get("content", "")) for n in case["world"]["nodes"])
        p["budget"] = 2000 + 100 * len(case["world"]["nodes"]) * max(1, len(case["roots"])) + 3 * total * (len(case.get("cols", [])) + 2)
        return p

    # ------------------------------------------------------------------ evaluation
    def evaluate(self, case, ctx):
        return {"A": self.eval_a, "B": self.eval_b, "C": self.eval_c, "D": self.eval_d}[case["sub"]](case, ctx)

    def eval_d(self, case, ctx):
        import os
        world = copy.deepcopy(case["world"])
        viols = []
        top = case["roots"][0]["top"]
        pad_i = next((i for i, n in enumerate(world["nodes"]) if n["path"] == top + "/0"), None)
        if pad_i is None:
            raise CaseInvalid("pad entry missing")
        fmt, shape, cols = case["format"], case["shape"], case["cols"]
        ks = [case["only_k"]] if case.get("only_k") else list(range(1, case.get("shifts", 44) + 1))
        with ctx.sandbox(world) as sb:
            roots = self.roots_sp(case, sb.root)
            fc = self.from_clause(roots)
            q = "select " + ", ".join(cols) + fc + (" order by path" if shape == "ordered" else "") + " into " + fmt
            cur = "0"
            for k in ks:
                new = "0" * k
                if new != cur:
                    os.rename(os.path.join(sb.root, top, cur), os.path.join(sb.root, top, new))
                    cur = new
                world["nodes"][pad_i]["path"] = top + "/" + new
                sb.world = world
                plan = copy.deepcopy(case["plan"])
                plan["order"] = {top: [new]}
                plan["budget"] = 5000 + 40 * len(world["nodes"])
                r0 = sb.run([q], plan=plan)
                if crashy(r0) or r0.status != 0:
                    viols.append(Violation(PROP, "C17.C.control", ["C17.C", "control", fmt, shape], {"query": q, "outcome": r0.summary()}))
                    return viols
                S = r0.stdout
                if k % 4 == 1:
                    ps = copy.deepcopy(plan)
                    ps["out_accept"] = {"cycle": True, "sizes": [1021 + k, 3]}
                    rs_ = sb.run([q], plan=ps)
                    if crashy(rs_) or rs_.stdout != S or rs_.status != 0:
                        viols.append(Violation(PROP, "C17.C.short", ["C17.C", "short_writes_change_stream", fmt, shape],
                                               {"query": q, "schedule": ps["out_accept"], "leading_name_len": k, "only_k": k, "outcome": rs_.summary(), "want_len": len(S), "got_len": len(rs_.stdout)}))
                        return viols
                for W in (0, 1000, 1024, 2048, 3072):
                    if W > len(S):
                        continue
                    p = copy.deepcopy(plan)
                    p["out_epipe"] = W
                    r = sb.run([q], plan=p)
                    ctx.metric("D_offsets")
                    bad = crashy(r)
                    if bad:
                        viols.append(Violation(PROP, "C17.C.crash", ["C17.C", "abnormal_end:" + bad, fmt, shape],
                                               {"query": q, "close_after": W, "stream_len": len(S), "leading_name_len": k, "only_k": k, "outcome": r.summary()}))
                        return viols
                    if not (len(r.stdout) <= W and S.startswith(r.stdout)):
                        viols.append(Violation(PROP, "C17.C.prefix", ["C17.C", "delivered_not_prefix", fmt, shape], {"query": q, "close_after": W, "leading_name_len": k, "only_k": k}))
                        return viols
            ctx.metric("D_alignment_cases")
            if len(ctx.samples) < 2:
                ctx.samples.append({"argv": [q], "alignment_shifts": len(ks), "close_offsets_per_shift": [0, 1000, 1024, 2048, 3072]})
        return viols

    def eval_a(self, case, ctx):
        world = case["world"]
        viols = []
        with ctx.sandbox(world) as sb:
            gen.validate_model(world, sb.root)
            roots = self.roots_sp(case, sb.root)
            shape = case["shape"]
            col = "name" if shape == "name" else "path"
            if shape == "count":
                q = "select count(*)" + self.from_clause(roots) + " into list"
            elif shape == "ordered":
                q = "select path" + self.from_clause(roots) + " order by path into list"
            elif shape == "attrs":
                # attribute columns that look at the entry themselves (is_empty lists a directory): only the path column is compared
                q = "select path, is_empty, size, absdir" + self.from_clause(roots) + " into list"
            else:
                q = "select " + col + self.from_clause(roots) + " into list"
            fkind = "+".join(sorted({(f.get("fail") or {}).get("call", "") + (f.get("fail") or {}).get("errno", "") + (f.get("mutate") or {}).get("action", "") for f in case["faults"]})) or "none"

            def expected(blocked, drop_self=()):
                exp = collections.Counter()
                for r in roots:
                    if r["top"] in blocked:
                        continue
                    for rel, node, lvl in gen.ref_walk(world, r["top"]):
                        if not gen.in_window(lvl, r["mind"], r["maxd"]):
                            continue
                        full = node["path"]
                        if full in drop_self:
                            continue
                        anc = full.rsplit("/", 1)[0]
                        cut = False
                        while len(anc) >= len(r["top"]):
                            if anc in blocked:
                                cut = True
                                break
                            if "/" not in anc:
                                break
                            anc = anc.rsplit("/", 1)[0]
                        if cut:
                            continue
                        val = (r["sp"] + "/" + rel) if col == "path" else rel.rsplit("/", 1)[-1]
                        exp[lz(val)] += 1
                return exp

            def observe(res):
                if shape == "count":
                    rows = res.rows(1)
                    if len(rows) != 1:
                        return None
                    try:
                        return int(rows[0][0])
                    except ValueError:
                        return None
                return collections.Counter(r[0] for r in res.rows(4 if shape == "attrs" else 1))

            def location_violation(res):
                """absdir is the real path of the directory the entry was found in - whatever failed next to it."""
                if shape != "attrs":
                    return None
                want = {}
                for r in roots:
                    for rel, node, lvl in gen.ref_walk(world, r["top"]):
                        want[lz(r["sp"] + "/" + rel)] = lz(sb.root + "/" + node["path"].rsplit("/", 1)[0])
                for row in res.rows(4):
                    if row[0] in want and row[3] not in (b"", want[row[0]]):
                        return {"entry": row[0].decode("utf-8", "replace"), "absdir": row[3].decode("utf-8", "replace"), "want": want[row[0]].decode("utf-8", "replace")}
                return None

            def emptiness_violation(res):
                """is_empty is derived from a directory's listing: when that listing fails the value may be missing, never wrong."""
                if shape != "attrs":
                    return None
                by_printed = {}
                for r in roots:
                    for rel, node, lvl in gen.ref_walk(world, r["top"]):
                        if node["type"] == "dir":
                            kids = any(n2["path"].rsplit("/", 1)[0] == node["path"] for n2 in world["nodes"] if "/" in n2["path"])
                            by_printed[lz(r["sp"] + "/" + rel)] = (node["path"], b"false" if kids else b"true")
                for row in res.rows(4):
                    if row[0] in by_printed and row[1] not in (b"", by_printed[row[0]][1]):
                        return {"directory": by_printed[row[0]][0], "is_empty": row[1].decode(), "truth": by_printed[row[0]][1].decode()}
                return None

            # control: nothing fails -> status 0, empty stderr, exact rows
            res0 = sb.run([q], plan=self.plan_with(case, faults=False))
            exp0 = expected(set())
            got0 = observe(res0)
            ok0 = (got0 == sum(exp0.values())) if shape == "count" else (got0 == exp0)
            if crashy(res0) or res0.status != 0 or res0.stderr or not ok0:
                viols.append(Violation(PROP, "C17.A.control", ["C17.A", "control", "none", shape],
                                       {"query": q, "outcome": res0.summary(), "expected_rows": sum(exp0.values())}))
                return viols
            if not case["faults"]:
                return viols
            res = sb.run([q], plan=self.plan_with(case))
            ctx.samples.append({"argv": [q], "faults": case["faults"], "outcome": res.summary()}) if len(ctx.samples) < 2 else None
            bad = crashy(res)
            if bad:
                viols.append(Violation(PROP, "C17.A.crash", ["C17.A", "abnormal_end:" + bad, fkind, shape], {"query": q, "faults": case["faults"], "outcome": res.summary()}))
                return viols
            def must_enter(p_):
                for r_ in roots:
                    if p_ == r_["top"]:
                        return True
                    if p_.startswith(r_["top"] + "/"):
                        lvl_ = p_[len(r_["top"]) + 1:].count("/") + 1
                        return r_["maxd"] == 0 or lvl_ < r_["maxd"]
                return False
            failed, mid, mutated = set(), set(), set()
            stat_failed = False
            realpath_failed, opened_ok = set(), set()
            nm = gen.node_map(world)
            for l in res.log:
                if " opendir " in l and l.endswith("-> ok"):
                    opened_ok.add(as_world_path(l.split(" ")[2], l.split(" ")[3]))
                m = _ERR.match(l)
                if m:
                    p = as_world_path(m.group(2), m.group(3))
                    if m.group(1) == "readdir":
                        mid.add(unq(m.group(2)))
                    elif m.group(1) in ("lstat", "stat"):
                        # an entry that cannot be stat'ed: if it is a directory it cannot be entered either
                        if " inj:fail" in l:
                            stat_failed = True
                            # ... if the walk had to enter it at all (a directory on the last level of the window is only listed;
                            # a walker may still look at its type, e.g. to sort entries, and ignore a failure there)
                            if p in nm and nm[p]["type"] == "dir" and must_enter(p):
                                failed.add(p)
                    elif m.group(1) == "realpath":
                        # only a directory the walk has to enter: a walker may canonicalise any entry for other purposes
                        # (ignore-file matching does), and a dangling link then fails to resolve without anything being unlistable
                        if p in nm and nm[p]["type"] == "dir" and must_enter(p):
                            realpath_failed.add(p)
                    else:
                        failed.add(p)
                    continue
                m = _MUT.match(l)
                if m:
                    g = unq(m.group(3))
                    mutated.add(g[3:] if g.startswith("$W/") else g)
            # a failed canonicalisation counts as "could not be listed" only if the directory was not listed anyway
            failed |= {p_ for p_ in realpath_failed if p_ not in opened_ok}
            # readdir lines carry the directory's node path as the first field
            mid = {("" if x == "." else x) for x in mid}
            # entries of a directory that vanished (or was replaced) after it had been opened may or may not have been
            # read before the race: rows inside such a directory are allowed, not required (like a mid-stream error)
            hard = expected(failed)
            # ... and the raced entry's own row is optional too: the race may strike before its parent is listed
            # (e.g. when a link to it is canonicalised earlier in the walk)
            # (rows inside a directory whose listing broke off half-way are optional as a whole: the statement requires the rows of
            # entries OUTSIDE a directory that cannot be listed; keeping or discarding the part read before the error is both legitimate)
            soft = expected(failed | mutated | mid, drop_self=mutated)
            got = observe(res)
            if shape == "count":
                ok = got is not None and sum(soft.values()) <= got <= sum(hard.values())
            else:
                ok = got is not None and not (soft - got) and not (got - hard)
            if not ok:
                det = {"query": q, "faults": case["faults"], "failed_dirs": sorted(failed), "vanished": sorted(mutated), "midstream": sorted(mid), "status": res.status,
                       "stderr": res.stderr[:300].decode("utf-8", "replace")}
                if shape == "count":
                    det.update({"count": got, "expected_between": [sum(soft.values()), sum(hard.values())]})
                else:
                    det.update({"missing": [x.decode("utf-8", "replace") for x in sorted((soft - got).elements())[:6]],
                                "extra": [x.decode("utf-8", "replace") for x in sorted((got - hard).elements())[:6]]})
                viols.append(Violation(PROP, "C17.A.rows", ["C17.A", "rows", fkind, shape], det))
            nm = gen.node_map(world)
            # a listing that failed only for a column looking into a directory the walk itself need not enter (is_empty of a
            # directory on the last level of the window) is that column's business: not necessarily reported
            mid_col = {x for x in mid if not must_enter(x)}
            mid = mid - mid_col
            if failed or mid:
                if res.status != 1:
                    viols.append(Violation(PROP, "C17.A.status", ["C17.A", "status_not_1", fkind, shape],
                                           {"query": q, "faults": case["faults"], "failed_dirs": sorted(failed | mid), "status": res.status, "stderr": res.stderr[:300].decode("utf-8", "replace")}))
                for d in sorted(failed | mid):
                    # a directory below another unlistable one cannot be known to the walk (its failure may have been seen
                    # by a canonicalisation that started elsewhere, e.g. of a link leading to it)
                    if any(d.startswith(a_ + "/") for a_ in failed | mutated | mid):
                        continue
                    # the path as walked: root spelling + relative part
                    names = []
                    for r in roots:
                        if d == r["top"] or d.startswith(r["top"] + "/"):
                            names.append(r["sp"] + d[len(r["top"]):])
                    # (a name that is not valid UTF-8 may be given lossily or byte for byte)
                    if names and not any(lz(n) in res.stderr or n.encode("utf-8", "surrogateescape") in res.stderr for n in names):
                        viols.append(Violation(PROP, "C17.A.stderr", ["C17.A", "path_not_named", fkind, shape],
                                               {"query": q, "dir": d, "stderr": res.stderr[:400].decode("utf-8", "replace")}))
                        break
            elif not mutated and not stat_failed and not mid_col:
                ctx.metric("A_fault_not_reached")
                if res.status != 0 or res.stderr:
                    viols.append(Violation(PROP, "C17.A.clean", ["C17.A", "status_without_failure", fkind, shape], {"query": q, "outcome": res.summary()}))
            # a sub-directory that cannot be entered because its parent is not searchable must be reported, not skipped silently
            unsearch = sorted({f["unsearchable_parent"] for f in case["faults"] if "unsearchable_parent" in f})
            for P in unsearch:
                for r in roots:
                    if not (P == r["top"] or P.startswith(r["top"] + "/")):
                        continue
                    # P itself must have been reached: no ancestor-or-self failed or vanished, and within the descent limit
                    anc, blocked_above = P, False
                    while True:
                        if anc in failed or anc in mutated:
                            blocked_above = True
                        if anc == r["top"]:
                            break
                        anc = anc.rsplit("/", 1)[0]
                    if blocked_above or any(P == m_ or P.startswith(m_ + "/") for m_ in mid):
                        continue
                    lvlP = 0 if P == r["top"] else P[len(r["top"]) + 1:].count("/") + 1
                    for n in world["nodes"]:
                        full = {f["fail"]["call"] for f in case["faults"] if f.get("unsearchable_parent") == P and f["fail"]["path"] == n["path"]}
                        if n["path"] in mutated:
                            continue  # the child itself raced away (vanished / replaced by a file): nothing left to report
                        if n["type"] == "dir" and n["path"].rsplit("/", 1)[0] == P and (r["maxd"] == 0 or lvlP + 1 < r["maxd"]) and {"stat", "realpath", "opendir"} <= full:
                            name = r["sp"] + n["path"][len(r["top"]):]
                            if res.status != 1 or (lz(name) not in res.stderr and name.encode("utf-8", "surrogateescape") not in res.stderr):
                                viols.append(Violation(PROP, "C17.A.silent", ["C17.A", "unlistable_directory_skipped_silently", "unsearchable_parent", shape],
                                                       {"query": q, "parent": P, "directory": n["path"], "status": res.status, "stderr": res.stderr[:300].decode("utf-8", "replace")}))
                                break
            if not mutated:
                lv = location_violation(res)
                if lv:
                    viols.append(Violation(PROP, "C17.A.cols", ["C17.A", "absdir_of_another_directory", fkind, shape], dict(lv, query=q, faults=case["faults"])))
                ev = emptiness_violation(res)
                if ev:
                    viols.append(Violation(PROP, "C17.A.cols", ["C17.A", "is_empty_wrong_after_failed_listing", fkind, shape], dict(ev, query=q, faults=case["faults"])))
            ctx.metric("A_dirs_failed", len(failed))
            ctx.metric("A_dirs_vanished", len(mutated))
            ctx.metric("A_midstream", len(mid))
        return viols

    def eval_b(self, case, ctx):
        world = case["world"]
        viols = []
        cols = case["cols"]
        nm = gen.node_map(world)
        with ctx.sandbox(world) as sb:
            gen.validate_model(world, sb.root)
            roots = self.roots_sp(case, sb.root)
            r0 = roots[0]
            sel = ["path", "size"] + cols
            q = "select " + ", ".join(sel) + self.from_clause(roots) + " into list"
            qagg = None
            if case["shape"] == "agg":
                qagg = "select count(*), sum(size), sum(line_count), min(line_count), max(line_count)" + self.from_clause(roots) + " into list"
            kind = case["kind"]
            fkind = kind
            for f in case["faults"]:
                if "fail" in f:
                    fkind = "%s:%s:%s" % (kind, f["fail"]["call"], f["fail"]["errno"])
            colsig = "+".join(sorted(c.split("(")[0] for c in cols))
            if kind in ("lstat_fail", "vanish_before_stat"):
                # the entry's attributes cannot be obtained: its columns may be empty, never another entry's values
                mcols = ["path", "size", "mode", "inode", "hardlinks", "uid", "is_dir", "is_file", "modified"] + cols[:1]
                # sometimes behind a filter that looks at a time of the entry first and lets every row pass
                # (`T > '1980-01-02' or name != 'zq'`: a time that is not available is no reason to stop the search)
                wc = (" where %s > '1980-01-02' or name != 'zq'" % case["datecol"]) if case.get("datecol") else ""
                qm = "select " + ", ".join(mcols) + self.from_clause(roots) + wc + " into list"
                rr = sb.run([qm], plan=copy.deepcopy(case["plan"]))
                rx = sb.run([qm], plan=self.plan_with(case))
                bad = crashy(rx) or crashy(rr)
                if bad:
                    viols.append(Violation(PROP, "C17.B.crash", ["C17.B", "abnormal_end:" + bad, fkind, "metadata"], {"query": qm, "faults": case["faults"], "outcome": rx.summary()}))
                    return viols
                ref_rows, rows = rr.rows(len(mcols)), rx.rows(len(mcols))
                targets = {(f.get("fail") or f.get("mutate"))["path"] for f in case["faults"]}
                hit = any(" inj:" in l for l in rx.log)
                if [r[0] for r in rows] != [r[0] for r in ref_rows]:
                    viols.append(Violation(PROP, "C17.B.rows", ["C17.B", "row_order_or_identity", fkind, "metadata"], {"query": qm, "rows": len(rows), "reference_rows": len(ref_rows)}))
                    return viols
                pre = (r0["sp"] + "/").encode("utf-8")
                for row, rrow in zip(rows, ref_rows):
                    wpath = r0["top"] + "/" + row[0][len(pre):].decode("utf-8")
                    if wpath in targets and hit:
                        for c, v, rv in zip(mcols[1:], row[1:], rrow[1:]):
                            if v not in (b"", b"false", rv):
                                viols.append(Violation(PROP, "C17.B.meta", ["C17.B", "foreign_value_in_unreadable_entry", fkind, c.split("(")[0]],
                                                       {"query": qm, "entry": wpath, "column": c, "value": v.decode("utf-8", "replace")[:60], "own_value": rv.decode("utf-8", "replace")[:60], "faults": case["faults"]}))
                                return viols
                        ctx.metric("B_entries_unstatable")
                    elif row[:-1] == rrow[:-1] and row[-1] in (b"", b"false") and self.link_target(nm, wpath) in targets:
                        continue  # a link to the unreadable entry: its content column is legitimately empty
                    elif row != rrow:
                        viols.append(Violation(PROP, "C17.B.others", ["C17.B", "other_row_changed", fkind, "metadata"],
                                               {"query": qm, "row": [x.decode("utf-8", "replace")[:60] for x in row], "reference": [x.decode("utf-8", "replace")[:60] for x in rrow]}))
                        return viols
                return viols
            if kind == "readlink":
                # rows of a `symlinks` walk with the link unreadable: everything the plain walk finds, nothing the fault-free walk does not
                qs = "select path" + self.from_clause(roots) + " symlinks into list"
                qn = "select path" + self.from_clause(roots) + " into list"
                rn = sb.run([qn], plan=copy.deepcopy(case["plan"]))
                rf = sb.run([qs], plan=copy.deepcopy(case["plan"]))
                rx = sb.run([qs], plan=self.plan_with(case))
                bad = crashy(rx) or crashy(rn) or crashy(rf)
                if bad:
                    viols.append(Violation(PROP, "C17.B.crash", ["C17.B", "abnormal_end:" + bad, fkind, "path"], {"query": qs, "faults": case["faults"], "outcome": rx.summary()}))
                    return viols
                import os

                def ident(row):
                    # the same entry may be printed under another path text when a different link leads to it first
                    pth = row.decode("utf-8", "surrogateescape")
                    ab = pth if os.path.isabs(pth) else os.path.join(sb.root, pth)
                    return (os.path.realpath(os.path.dirname(ab)), os.path.basename(ab))
                got = collections.Counter(ident(r[0]) for r in rx.rows(1))
                lo = collections.Counter(ident(r[0]) for r in rn.rows(1))
                hi = collections.Counter(ident(r[0]) for r in rf.rows(1))
                if (lo - got) or (got - hi):
                    viols.append(Violation(PROP, "C17.B.others", ["C17.B", "rows_changed_by_unreadable_link", fkind, "path"],
                                           {"query": qs, "faults": case["faults"], "lost": [list(x) for x in (lo - got)][:4], "invented": [list(x) for x in (got - hi)][:4]}))
                return viols
            if kind == "fifo":
                res = sb.run([q], plan=self.plan_with(case))
                bad = crashy(res)
                if bad:
                    viols.append(Violation(PROP, "C17.B.term", ["C17.B", "fifo:" + bad, colsig if len(cols) == 1 else "multi"],
                                           {"query": q, "outcome": res.summary(), "last_events": res.log[-3:]}))
                return viols
            # fault-free reference (same E, no chunking): fselect's own answer
            base_plan = copy.deepcopy(case["plan"])
            ref = sb.run([q], plan=base_plan)
            if crashy(ref):
                viols.append(Violation(PROP, "C17.B.control", ["C17.B", "control", "none", colsig], {"query": q, "outcome": ref.summary()}))
                return viols
            ref_rows = ref.rows(len(sel))
            if kind == "dangling":
                # nothing unreadable except the dangling link's target: its content columns are empty, the run ends normally
                for row in ref_rows:
                    if row[0].endswith(b"/dang0"):
                        for c, v in zip(cols, row[2:]):
                            if v not in (b"", b"false"):
                                viols.append(Violation(PROP, "C17.B.cols", ["C17.B", "dangling_not_empty", c.split("(")[0]], {"query": q, "row": [x.decode("utf-8", "replace") for x in row]}))
                return viols
            res = sb.run([q], plan=self.plan_with(case))
            if len(ctx.samples) < 2:
                ctx.samples.append({"argv": [q], "faults": case["faults"], "chunks": case.get("chunks"), "outcome": res.summary()})
            bad = crashy(res)
            if bad:
                viols.append(Violation(PROP, "C17.B.crash", ["C17.B", "abnormal_end:" + bad, fkind, colsig], {"query": q, "faults": case["faults"], "outcome": res.summary()}))
                return viols
            rows = res.rows(len(sel))
            # which faults fired, per file
            fired = {}
            for l in res.log:
                if " inj:fail" in l and (" open " in l or " read " in l):
                    parts = l.split(" ")
                    fired.setdefault(unq(parts[3]), set()).add(parts[1])
                elif "inj:mutate" in l:
                    m = _MUT.match(l)
                    g = unq(m.group(3))
                    fired.setdefault(g[3:] if g.startswith("$W/") else g, set()).add("vanish")
            spec = {}
            for f in case["faults"]:
                d = f.get("fail") or f.get("mutate")
                spec[d["path"]] = f
            if len(rows) != len(ref_rows):
                viols.append(Violation(PROP, "C17.B.rows", ["C17.B", "row_count", fkind, colsig], {"query": q, "rows": len(rows), "reference_rows": len(ref_rows), "stderr": res.stderr[:300].decode("utf-8", "replace")}))
                return viols
            pre = (r0["sp"] + "/").encode("utf-8")
            faulted_paths = set()
            for row, rrow in zip(rows, ref_rows):
                if row[0] != rrow[0]:
                    viols.append(Violation(PROP, "C17.B.rows", ["C17.B", "row_order_or_identity", fkind, colsig], {"query": q, "row": row[0].decode("utf-8", "replace"), "reference": rrow[0].decode("utf-8", "replace")}))
                    return viols
                wpath = r0["top"] + "/" + row[0][len(pre):].decode("utf-8")
                node = nm.get(wpath)
                # resolve links: a fault on the target also affects the link's content columns
                tgt = wpath
                hops = 0
                while node is not None and node["type"] == "symlink" and hops < 8:
                    import os
                    tgt = os.path.normpath(os.path.join(os.path.dirname(tgt), node["target"]))
                    node = nm.get(tgt)
                    hops += 1
                f = spec.get(tgt)
                hit = fired.get(tgt, set())
                if f is None or not hit:
                    if row != rrow:
                        viols.append(Violation(PROP, "C17.B.others", ["C17.B", "other_row_changed", fkind, colsig],
                                               {"query": q, "row": [x.decode("utf-8", "replace")[:80] for x in row], "reference": [x.decode("utf-8", "replace")[:80] for x in rrow]}))
                        break
                    continue
                faulted_paths.add(row[0])
                if "vanish" in hit:
                    # the file vanished after its first lstat: each column is either the fault-free value or empty
                    for c, v, rv in zip(sel[1:], row[1:], rrow[1:]):
                        if v != rv and v not in (b"", b"false"):
                            viols.append(Violation(PROP, "C17.B.cols", ["C17.B", "wrong_value_after_vanish", c.split("(")[0]], {"query": q, "column": c, "value": v.decode("utf-8", "replace")[:80], "reference": rv.decode("utf-8", "replace")[:80]}))
                    continue
                if row[1] != rrow[1]:
                    viols.append(Violation(PROP, "C17.B.meta", ["C17.B", "metadata_column_changed", fkind, "size"], {"query": q, "row": [x.decode("utf-8", "replace")[:80] for x in row]}))
                strict = "open" in hit or ("fail" in f and f["fail"]["call"] == "read")
                off = f["fail"].get("arg", 0) if "fail" in f and f["fail"]["call"] == "read" else 0
                for c, v, rv in zip(cols, row[2:], rrow[2:]):
                    cname = c.split("(")[0]
                    if cname in XCOLS:
                        # attributes are fetched through an open file: lost with a failing open, untouched by a failing read
                        # (or fetched by path, without opening anything: then the value is simply the entry's own)
                        okv = v in (b"", b"false", rv) if "open" in hit else v == rv
                    elif cname == "is_shebang":
                        okv = v in (b"false", b"") or (off >= 2 and v == rv)
                    elif cname == "contains" and rv == b"":
                        okv = v == b""
                    else:
                        okv = v == b""
                    if not okv:
                        viols.append(Violation(PROP, "C17.B.cols", ["C17.B", "content_column_not_empty", fkind, cname],
                                               {"query": q, "file": tgt, "column": c, "value": v.decode("utf-8", "replace")[:80], "fault_free_value": rv.decode("utf-8", "replace")[:80], "fault": f}))
            if res.status not in (0, 1):
                viols.append(Violation(PROP, "C17.B.status", ["C17.B", "status", fkind, colsig], {"status": res.status}))
            if not case["faults"] and (res.status != 0 or res.stderr):
                viols.append(Violation(PROP, "C17.B.clean", ["C17.B", "status_without_failure", fkind, colsig], {"outcome": res.summary()}))
            # aggregates over readable data
            if qagg and not viols and not any("vanish" in h for h in fired.values()):
                sb.rebuild() if any("mutate" in f for f in case["faults"]) else None
                ares = sb.run([qagg], plan=self.plan_with(case))
                bad = crashy(ares)
                arow = ares.rows(5)
                want_count = len(ref_rows)
                want_size = 0
                want_lines = 0
                li = sel.index("line_count") if "line_count" in sel else None
                for row, rrow in zip(rows, ref_rows):
                    want_size += int(rrow[1] or 0)
                # line counts of readable rows from a dedicated fault-free per-row run
                lres = sb.run(["select path, line_count" + self.from_clause(roots) + " into list"], plan=base_plan)
                # which files were unreadable *in the aggregate run* (its own recorded history decides)
                agg_fired = set()
                readable_counts = []
                for l in ares.log:
                    if " inj:fail" in l and (" open " in l or " read " in l):
                        agg_fired.add(unq(l.split(" ")[3]))
                for prow in lres.rows(2):
                    wp = r0["top"] + "/" + prow[0][len(pre):].decode("utf-8")
                    if self.link_target(nm, wp) in agg_fired:
                        continue
                    want_lines += int(prow[1] or 0)
                    if prow[1] != b"":
                        readable_counts.append(int(prow[1]))
                if bad or len(arow) != 1:
                    viols.append(Violation(PROP, "C17.B.agg", ["C17.B", "aggregate_abnormal", fkind, "agg"], {"query": qagg, "outcome": ares.summary()}))
                else:
                    got = [x.decode() for x in arow[0]]
                    want = [str(want_count), str(want_size), str(want_lines), str(min(readable_counts) if readable_counts else 0), str(max(readable_counts) if readable_counts else 0)]
                    if got != want:
                        viols.append(Violation(PROP, "C17.B.agg", ["C17.B", "aggregate_over_readable_data", fkind, "agg"],
                                               {"query": qagg, "got": got, "want": want, "faults": case["faults"]}))
            ctx.metric("B_files_faulted", len(faulted_paths))
        return viols

    def eval_c(self, case, ctx):
        world = case["world"]
        viols = []
        with ctx.sandbox(world) as sb:
            gen.validate_model(world, sb.root)
            roots = self.roots_sp(case, sb.root)
            fmt = case["format"]
            shape = case["shape"]
            cols = case["cols"]
            fc = self.from_clause(roots)
            if shape == "streamed":
                q = "select " + ", ".join(cols) + fc
            elif shape == "ordered":
                q = "select " + ", ".join(cols) + fc + " order by " + cols[0]
            elif shape == "agg":
                q = "select count(*), sum(size), max(size)" + fc
            else:
                q = "select ext, count(*), sum(size)" + fc + " group by ext"
            q += " into " + fmt
            plan = copy.deepcopy(case["plan"])
            res0 = sb.run([q], plan=plan)
            if crashy(res0) or res0.status != 0:
                viols.append(Violation(PROP, "C17.C.control", ["C17.C", "control", fmt, shape], {"query": q, "outcome": res0.summary()}))
                return viols
            S = res0.stdout
            L = len(S)
            ctx.metric("C_cases")
            # short writes only: the stream must be delivered intact
            schedules = [case["short"]] + ([{"cycle": True, "sizes": [1]}, {"cycle": True, "sizes": [2, 3]}] if L <= 2000 else [{"cycle": True, "sizes": [997]}])
            for sched in schedules:
                p2 = copy.deepcopy(plan)
                p2["out_accept"] = sched
                p2["budget"] = 5000 + 40 * len(world["nodes"]) + 3 * L
                r2 = sb.run([q], plan=p2)
                if crashy(r2) or r2.stdout != S or r2.status != 0:
                    viols.append(Violation(PROP, "C17.C.short", ["C17.C", "short_writes_change_stream", fmt, shape], {"query": q, "schedule": sched, "outcome": r2.summary(), "want_len": L, "got_len": len(r2.stdout)}))
                    break
            if L > case.get("maxL", 3000):
                import random
                rr = random.Random(L)
                ws = sorted({w for k in range(0, L + 1024, 1024) for w in range(k - 3, k + 4) if 0 <= w <= L} | {rr.randrange(L + 1) for _ in range(case.get("nrand", 200))}
                            | set(range(0, min(L, 20) + 1)) | set(range(max(0, L - 40), L + 1)))
                ctx.metric("C_sampled_offsets_cases")
            else:
                ws = list(range(L + 1))
                ctx.metric("C_exhaustive_offset_cases")
            ctx.metric("C_offsets", len(ws))
            for W in ws:
                p = copy.deepcopy(plan)
                p["out_epipe"] = W
                r = sb.run([q], plan=p)
                bad = crashy(r)
                where = "end" if W == L else "start" if W == 0 else "mid"
                if bad:
                    viols.append(Violation(PROP, "C17.C.crash", ["C17.C", "abnormal_end:" + bad, fmt, shape],
                                           {"query": q, "close_after": W, "stream_len": L, "where": where, "outcome": r.summary()}))
                    break
                if not (len(r.stdout) <= W and S.startswith(r.stdout)):
                    viols.append(Violation(PROP, "C17.C.prefix", ["C17.C", "delivered_not_prefix", fmt, shape],
                                           {"query": q, "close_after": W, "delivered_len": len(r.stdout), "stream_len": L}))
                    break
            if len(ctx.samples) < 2:
                ctx.samples.append({"argv": [q], "stream_len": L, "close_offsets": len(ws), "short_schedule": case["short"]})
        return viols

    def exhaustive_note(self, metrics):
        return ("D: %d alignment-sweep cases (44 byte shifts x 5 close offsets, %d executions); C: every close offset W in 0..L for %d sampled (world, query, format, result path) cases (%d offsets in total); %d larger cases sampled around 1 KiB multiples" %
                (metrics.get("D_alignment_cases", 0), metrics.get("D_offsets", 0), metrics.get("C_exhaustive_offset_cases", 0), metrics.get("C_offsets", 0), metrics.get("C_sampled_offsets_cases", 0)))


CHECK = Check()
