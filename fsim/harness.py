"""fsim harness: seeded search over cases, evidence, minimisation, replay, known findings."""
import copy
import hashlib
import importlib
import json
import multiprocessing as mp
import os
import random
import re
import subprocess
import sys
import time
import traceback

from . import core
from .core import HarnessError, CaseInvalid

VERIF = core.VERIF
DEFAULT_SEED = 20261004
REPLAYS = os.path.join(VERIF, "replays")
EVIDENCE = os.path.join(VERIF, "evidence")
KNOWN = os.path.join(VERIF, "known_findings.json")

COMPONENTS = {
    "real": ["fselect binary built from /repo's working tree (lexer, parser, searcher, evaluator, aggregates, TopN, formatters, zip, hashing, chrono, regex)",
             "glibc and Rust std (LineWriter, ReadDir, io::copy)", "tmpfs under /dev/shm as dumb storage", "tzdata selected through TZ",
             "extended attributes (raw syscalls bypass the seam)"],
    "simulated": ["directory-stream order, d_type, d_ino/st_ino/st_dev", "lstat/statx answers where overlaid", "open/opendir/readdir/stat/read/readlink/realpath errors",
                  "races (shim mutates the world at a planned event)", "read chunking / short reads", "stdout consumer (short writes, close at byte W)",
                  "wall clock and monotonic clock", "entropy (getrandom, /dev/urandom)", "user/group database"],
    "stubbed_fselect_code": [],
}


class Violation:
    def __init__(self, prop, clause, sig, detail):
        self.prop = prop
        self.clause = clause
        self.sig = [str(x) for x in sig]  # signature: (clause, fault kind, column/format ...)
        self.detail = detail

    def to_json(self):
        return {"property": self.prop, "clause": self.clause, "signature": self.sig, "detail": self.detail}


class Ctx:
    """Per-case recorder handed to Check.evaluate."""

    def __init__(self):
        self.execs = 0
        self.sigs = []          # (logsig, nontrivial)
        self.faults = {}        # kind -> [configured, fired]
        self.metrics = {}
        self.wall_exec = 0.0
        self.samples = []

    def sandbox(self, world):
        return RecSandbox(world, self)

    def bump(self, kind, configured=0, fired=0):
        c = self.faults.setdefault(kind, [0, 0])
        c[0] += configured
        c[1] += fired

    def metric(self, name, n=1):
        self.metrics[name] = self.metrics.get(name, 0) + n


_INJ_FAIL = re.compile(r"^\d+ (\w+) .* -> err (\d+) inj:fail")


class RecSandbox(core.Sandbox):
    def __init__(self, world, ctx):
        super().__init__(world)
        self.ctx = ctx

    def run(self, argv, plan=None, cwd="", tz="UTC", timeout=60.0, config=None, stdin_text=None):
        plan = plan or {}
        res = super().run(argv, plan, cwd, tz, timeout, config, stdin_text)
        if config is not None or plan.get("config"):
            self.ctx.bump("user_configuration_file", configured=1, fired=1)
        if plan.get("nofile"):
            self.ctx.bump("descriptor_limit", configured=1, fired=1)
        if plan.get("aslimit"):
            self.ctx.bump("address_space_limit", configured=1, fired=1)
        if stdin_text is not None:
            self.ctx.bump("interactive_session", configured=1, fired=1)
        ctx = self.ctx
        ctx.execs += 1
        ctx.wall_exec += res.wall
        log = res.log
        fired_any = False
        # configured
        for f in plan.get("fail", []):
            ctx.bump("fail:%s:%s" % (f["call"], f["errno"]), configured=1)
        for m in plan.get("mutate", []):
            ctx.bump("race:%s" % m["action"], configured=1)
        if plan.get("chunks"):
            ctx.bump("short_read_schedule", configured=1)
        if plan.get("out_accept"):
            ctx.bump("short_write_schedule", configured=1)
        if plan.get("out_epipe") is not None:
            ctx.bump("stdout_closed", configured=1)
        if plan.get("dtype_unknown"):
            ctx.bump("dtype_unknown", configured=1)
        if plan.get("order"):
            ctx.bump("arrival_order", configured=1)
        if any(("ino" in kv or "dev" in kv) for kv in plan.get("stat", {}).values()):
            ctx.bump("inode_renumbering", configured=1)
        if any("dino" in kv for kv in plan.get("stat", {}).values()):
            ctx.bump("mount_point_d_ino", configured=1, fired=1)
        if any((set(kv) - {"ino", "dev"}) for kv in plan.get("stat", {}).values()):
            ctx.bump("stat_overlay", configured=1)
        if plan.get("tty"):
            ctx.bump("stdout_is_terminal", configured=1, fired=1 if any(" isatty " in l for l in res.log) else 0)
        if plan.get("entropy") is not None:
            ctx.bump("hash_seed", configured=1)
        if plan.get("clock") is not None:
            ctx.bump("simulated_clock", configured=1)
        if plan.get("users") or plan.get("groups"):
            ctx.bump("user_database", configured=1)
        # fired (from the recorded history)
        seen = set()
        if plan.get("entropy") is not None and any(" getrandom " in l or " urandom " in l for l in log[:8]):
            seen.add("hash_seed")
        if plan.get("clock") is not None and any(" clock realtime " in l for l in log):
            seen.add("simulated_clock")
        if plan.get("users") or plan.get("groups"):
            if any(" getpwuid " in l or " getgrgid " in l for l in log):
                seen.add("user_database")
        for l in log:
            if " inj:" in l:
                fired_any = True
                m = _INJ_FAIL.match(l)
                if m:
                    name = errno_name(int(m.group(2)))
                    seen.add("fail:%s:%s" % (m.group(1) if m.group(1) not in ("lstat", "fstat") else "stat", name))
                elif "inj:mutate" in l:
                    seen.add("race:" + l.split(" ")[2])
                elif "inj:short" in l:
                    seen.add("short_read_schedule" if " read " in l else ("short_write_schedule" if plan.get("out_accept") else "stdout_closed"))
                elif "inj:epipe" in l:
                    seen.add("stdout_closed")
            elif l.endswith("type=0") and " readdir " in l:
                seen.add("dtype_unknown")
        if res.sim == "BLOCKED_FOREVER":
            seen.add("fifo_blocked_forever")
            ctx.bump("fifo_blocked_forever", configured=1)
        if plan.get("order") and any(" opendir " in l and l.endswith("-> ok") for l in log):
            seen.add("arrival_order")
        if any(("ino" in kv or "dev" in kv) for kv in plan.get("stat", {}).values()):
            seen.add("inode_renumbering")
        if any((set(kv) - {"ino", "dev"}) for kv in plan.get("stat", {}).values()):
            seen.add("stat_overlay")
        for k in seen:
            ctx.bump(k, fired=1)
        nontrivial = fired_any or bool(seen - {"hash_seed", "simulated_clock"})
        ctx.sigs.append((core.log_signature(log), nontrivial))
        return res


def errno_name(n):
    for k, v in core.ERRNO.items():
        if v == n:
            return k
    return str(n)


# ----------------------------------------------------------------------------- check loading

def load_check(cid):
    mod = importlib.import_module("fsim.checks.%s" % cid.lower())
    return mod.CHECK


def case_rng(seed, cid, index):
    return random.Random("%d/%s/%d" % (seed, cid, index))


def _work(job):
    cid, seed, tier, index, recheck = job
    try:
        chk = load_check(cid)
        case = chk.gen(case_rng(seed, cid, index), tier, index)
        ctx = Ctx()
        viols = chk.evaluate(case, ctx)
        out = {"index": index, "execs": ctx.execs, "sigs": ctx.sigs, "faults": ctx.faults, "metrics": ctx.metrics,
               "violations": [v.to_json() for v in viols], "wall_exec": ctx.wall_exec}
        if viols or index < 3:
            out["case"] = case
            out["samples"] = ctx.samples
        if recheck:
            ctx2 = Ctx()
            viols2 = chk.evaluate(case, ctx2)
            if [s for s, _ in ctx.sigs] != [s for s, _ in ctx2.sigs] or [v.sig for v in viols] != [v.sig for v in viols2]:
                out["nondeterministic"] = True
            out["rechecked"] = True
        return out
    except HarnessError as e:
        return {"index": index, "harness_error": "%s" % e, "trace": traceback.format_exc()}
    except Exception as e:  # a bug in the machinery is a harness error, never a violation
        return {"index": index, "harness_error": "%s: %s" % (type(e).__name__, e), "trace": traceback.format_exc()}


# ----------------------------------------------------------------------------- known findings

def load_known():
    if not os.path.exists(KNOWN):
        return {"findings": [], "fixed": []}
    with open(KNOWN) as f:
        return json.load(f)


def match_known(known, prop, sig):
    for k in known.get("findings", []):
        if k["property"] == prop and list(k["signature"]) == list(sig):
            return k
    return None


# ----------------------------------------------------------------------------- minimisation

def prune_plan(plan, world):
    paths = {n["path"] for n in world["nodes"]} | {""}
    p = copy.deepcopy(plan)
    for key in ("order", "stat", "chunks"):
        if key in p:
            p[key] = {k: v for k, v in p[key].items() if k in paths}
    if "order" in p:
        for d in list(p["order"]):
            p["order"][d] = [x for x in p["order"][d] if ((d + "/" + x) if d else x) in paths]
    if "dtype_unknown" in p:
        p["dtype_unknown"] = [d for d in p["dtype_unknown"] if d in paths]
    if "fail" in p:
        p["fail"] = [f for f in p["fail"] if f["path"] in paths]
    if "mutate" in p:
        p["mutate"] = [m for m in p["mutate"] if m["path"] in paths]
    return p


def remove_subtree(world, path):
    pre = path + "/"
    gone = {n["path"] for n in world["nodes"] if n["path"] == path or n["path"].startswith(pre)}
    nodes = [n for n in world["nodes"] if n["path"] not in gone and not (n["type"] == "hardlink" and n["target"] in gone)]
    return {"nodes": nodes}


def generic_shrinks(case):
    """Yield smaller candidate cases (generic part: plan rules, world subtrees, contents)."""
    plans = []
    if isinstance(case.get("plan"), dict):
        plans.append(("plan", None))
    if isinstance(case.get("plans"), list):
        for i in range(len(case["plans"])):
            plans.append(("plans", i))

    def getp(c, ref):
        return c[ref[0]] if ref[1] is None else c[ref[0]][ref[1]]

    for ref in plans:
        p = getp(case, ref)
        for key in ("fail", "mutate"):
            for i in range(len(p.get(key, []))):
                c = copy.deepcopy(case)
                del getp(c, ref)[key][i]
                yield c
        for key in ("order", "stat", "chunks"):
            if p.get(key):
                c = copy.deepcopy(case)
                getp(c, ref)[key] = {}
                yield c
                if len(p[key]) > 1:
                    for k in list(p[key]):
                        c = copy.deepcopy(case)
                        del getp(c, ref)[key][k]
                        yield c
        for key in ("dtype_unknown",):
            if p.get(key):
                c = copy.deepcopy(case)
                getp(c, ref)[key] = []
                yield c
        for key in ("out_accept", "config", "nofile", "aslimit"):
            if p.get(key):
                c = copy.deepcopy(case)
                getp(c, ref)[key] = None
                yield c
    if "world" in case:
        nodes = case["world"]["nodes"]
        # biggest subtrees first
        for n in sorted(nodes, key=lambda n: (n["path"].count("/"), n["path"])):
            c = copy.deepcopy(case)
            c["world"] = remove_subtree(case["world"], n["path"])
            if len(c["world"]["nodes"]) == len(nodes):
                continue
            for ref in plans:
                if ref[1] is None:
                    c[ref[0]] = prune_plan(getp(c, ref), c["world"])
                else:
                    c[ref[0]][ref[1]] = prune_plan(getp(c, ref), c["world"])
            yield c
        for i, n in enumerate(nodes):
            if n["type"] == "file" and len(n.get("content", "")) > 1:
                for newlen in (0, 1, len(n["content"]) // 2):
                    c = copy.deepcopy(case)
                    c["world"]["nodes"][i]["content"] = n["content"][:newlen]
                    yield c
            if "mode" in n or "mtime" in n or "owner" in n:
                c = copy.deepcopy(case)
                for k in ("mode", "mtime", "atime", "owner"):
                    c["world"]["nodes"][i].pop(k, None)
                yield c


def minimise(chk, case, sig, budget=250, deadline_s=120.0):
    """Delta-debug `case` while a violation with signature `sig` persists."""
    t0 = time.time()
    evals = 0
    cur = case
    improved = True
    while improved and evals < budget and time.time() - t0 < deadline_s:
        improved = False
        # candidates are produced lazily: a world of thousands of nodes has thousands of (deep-copied) candidates, and the
        # deadline must be able to cut their production short
        import itertools
        own = chk.shrinks(cur) if hasattr(chk, "shrinks") else iter(())
        for cand in itertools.chain(own, generic_shrinks(cur)):
            if evals >= budget or time.time() - t0 > deadline_s:
                break
            if _case_key(cand) >= _case_key(cur):
                continue  # only strictly smaller candidates: the search must terminate
            evals += 1
            try:
                viols = chk.evaluate(cand, Ctx())
            except CaseInvalid:
                continue
            except HarnessError:
                continue
            except Exception:
                continue  # a shrunk case the oracle cannot handle is simply not a candidate
            if any(v.sig == sig for v in viols):
                cur = cand
                improved = True
                break
    return cur, evals


def _case_key(case):
    j = json.dumps(case, sort_keys=True)
    return (len(j), j)


def case_size(case):
    return len(json.dumps(case))


# ----------------------------------------------------------------------------- replay

def replay_file(cid, path, quiet=False):
    """Re-run a replay file. Returns 1 if the recorded violation reproduces, 0 if not."""
    with open(path) as f:
        rec = json.load(f)
    chk = load_check(cid)
    viols = chk.evaluate(rec["case"], Ctx())
    want = rec["expect"]["signature"]
    hit = [v for v in viols if v.sig == want]
    if hit:
        if not quiet:
            print("REPLAY reproduces: %s" % json.dumps(hit[0].to_json())[:2000])
        return 1
    if not quiet:
        print("REPLAY does not reproduce (got %s)" % [v.sig for v in viols])
    return 0


# ----------------------------------------------------------------------------- main driver

def run_check(cid, tier, seed, workers=None, n_override=None, sigs_out=None):
    t_start = time.time()
    chk = load_check(cid)
    core.build()
    os.makedirs(REPLAYS, exist_ok=True)
    os.makedirs(EVIDENCE, exist_ok=True)
    n = n_override if n_override is not None else chk.cases[tier]
    workers = workers or int(os.environ.get("VERIF_WORKERS") or 0) or min(16, os.cpu_count() or 1)
    print("[fsim] check=%s tier=%s VERIF_SEED=%d cases=%d workers=%d" % (cid, tier, seed, n, workers), flush=True)
    jobs = [(cid, seed, tier, i, (i % 100 == 7)) for i in range(n)]
    results = []
    with mp.Pool(workers) as pool:
        for r in pool.imap_unordered(_work, jobs, chunksize=max(1, min(8, n // (workers * 4) or 1))):
            results.append(r)
    results.sort(key=lambda r: r["index"])
    herr = [r for r in results if "harness_error" in r]
    if herr:
        print("[fsim] HARNESS ERROR in case %d: %s\n%s" % (herr[0]["index"], herr[0]["harness_error"], herr[0].get("trace", "")), flush=True)
        return 2
    nondet = [r for r in results if r.get("nondeterministic")]
    if nondet:
        print("[fsim] HARNESS ERROR: case %d is not deterministic (event logs differ between two evaluations)" % nondet[0]["index"], flush=True)
        return 2

    execs = sum(r["execs"] for r in results)
    if sigs_out:
        # determinism proof: the per-case event-log signatures and verdicts, for diffing between runs
        with open(sigs_out, "w") as f:
            json.dump([[r["index"], [s for s, _ in r["sigs"]], [v["signature"] for v in r["violations"]]] for r in results], f)
    allsigs = set()
    nontriv = set()
    faults = {}
    metrics = {}
    for r in results:
        for s, nt in r["sigs"]:
            allsigs.add(s)
            if nt:
                nontriv.add(s)
        for k, (c, f) in r["faults"].items():
            a = faults.setdefault(k, [0, 0])
            a[0] += c
            a[1] += f
        for k, v in r["metrics"].items():
            metrics[k] = metrics.get(k, 0) + v

    # ---- violations: group by signature, minimise, replay in a fresh process
    known = load_known()
    by_sig = {}
    for r in results:
        for v in r["violations"]:
            by_sig.setdefault(tuple(v["signature"]), []).append((r["index"], v, r.get("case")))
    exit_code = 0
    reported = []
    known_hit = []
    t_min0 = time.time()
    for sig, items in sorted(by_sig.items()):
        k = match_known(known, cid, list(sig))
        if k:
            print("KNOWN-FINDING: property=%s %s [signature %s; %d case(s) this run, e.g. index %d]" % (cid, k["what"], "/".join(sig), len(items), items[0][0]), flush=True)
            known_hit.append({"signature": list(sig), "cases": len(items)})
            continue
        if len(reported) >= 8:
            print("[fsim] further violation signature not minimised/reported this run: %s (%d cases)" % ("/".join(sig), len(items)), flush=True)
            exit_code = 1
            continue
        # start from the smallest case that shows this signature
        index, v, case = min(items, key=lambda it: (case_size(it[2]) if it[2] is not None else 1 << 60, it[0]))
        # minimisation is bounded per signature and per run (later signatures get what is left, at least 10 s)
        left = max(10.0, 240.0 - (time.time() - t_min0))
        small, evals = minimise(chk, case, list(sig), deadline_s=min(90.0, left))
        viols = chk.evaluate(small, Ctx())
        hit = [x for x in viols if x.sig == list(sig)]
        detail = hit[0].detail if hit else v["detail"]
        name = "%s-%d-%d-%s.json" % (cid, seed, index, hashlib.sha1("/".join(sig).encode()).hexdigest()[:8])
        path = os.path.join(REPLAYS, name)
        with open(path, "w") as f:
            json.dump({"property": cid, "seed": seed, "index": index, "tier": tier, "binary": core.binary_hash(),
                       "expect": {"signature": list(sig), "clause": v["clause"], "detail": detail},
                       "minimise_evals": evals, "original_size": case_size(case), "minimised_size": case_size(small),
                       "case": small}, f, indent=1, sort_keys=True)
        # replay in a fresh process before reporting
        p = subprocess.run([sys.executable, os.path.join(VERIF, "check"), cid, "--replay", path, "--no-build"],
                           stdout=subprocess.PIPE, stderr=subprocess.STDOUT)
        if p.returncode != 1:
            print("[fsim] HARNESS ERROR: violation %s of case %d did not replay from %s:\n%s" % ("/".join(sig), index, path, p.stdout.decode("utf-8", "replace")), flush=True)
            return 2
        print("VIOLATION property=%s replay=%s" % (cid, path), flush=True)
        print("  clause=%s signature=%s cases=%d first_index=%d\n  detail=%s" % (v["clause"], "/".join(sig), len(items), index, json.dumps(detail)[:1500]), flush=True)
        reported.append({"signature": list(sig), "replay": path, "cases": len(items)})
        exit_code = 1

    wall = time.time() - t_start
    samples = []
    for r in results[:3]:
        if "case" in r:
            samples.append({"index": r["index"], "case": chk.sample_view(r["case"]) if hasattr(chk, "sample_view") else r["case"],
                            "executions": r.get("samples", [])[:4], "violations": r["violations"]})
    ev = {
        "property_id": cid,
        "tier": tier,
        "seed": seed,
        "level": chk.level,
        "coverage": {
            "evaluations": execs,
            "cases": len(results),
            "distinct_nontrivial": len(nontriv),
            "distinct_event_logs": len(allsigs),
            "rule": chk.rule,
            "samples": samples,
            "exhaustive": False,
            "exhaustive_subspaces": chk.exhaustive_note(metrics) if hasattr(chk, "exhaustive_note") else "",
            "runs_per_hour": int(execs / max(wall, 1e-6) * 3600),
            "seeds_per_hour": int(len(results) / max(wall, 1e-6) * 3600),
            "fault_kinds": {k: {"configured": v[0], "fired": v[1]} for k, v in sorted(faults.items())},
            "metrics": metrics,
            "simulated_time": chk.simulated_time if hasattr(chk, "simulated_time") else "clock frozen at one instant per run; the system has no timers",
            "components": COMPONENTS,
            "determinism_rechecks": sum(1 for r in results if r.get("rechecked")),
            "known_findings_matched": known_hit,
            "violations_reported": reported,
            "binary": core.binary_hash(),
        },
        "assumptions": chk.assumptions,
        "wall_s": round(wall, 2),
        "violations": len(reported),
    }
    with open(os.path.join(EVIDENCE, "%s.json" % cid), "w") as f:
        json.dump(ev, f, indent=1, sort_keys=True)
    print("[fsim] %s %s: cases=%d executions=%d distinct_nontrivial=%d violations=%d known=%d wall=%.1fs" %
          (cid, tier, len(results), execs, len(nontriv), len(reported), len(known_hit), wall), flush=True)
    return exit_code


def main(argv):
    import argparse
    ap = argparse.ArgumentParser()
    ap.add_argument("check")
    ap.add_argument("--tier", default=os.environ.get("VERIF_TIER", "quick"))
    ap.add_argument("--replay")
    ap.add_argument("--no-build", action="store_true")
    ap.add_argument("--cases", type=int)
    ap.add_argument("--workers", type=int)
    ap.add_argument("--quiet", action="store_true")
    ap.add_argument("--sigs-out")
    a = ap.parse_args(argv)
    cid = a.check.upper()
    seed = int(os.environ.get("VERIF_SEED", DEFAULT_SEED))
    try:
        if a.replay:
            if not a.no_build:
                core.build(quiet=True)
            r = replay_file(cid, a.replay, quiet=a.quiet)
            if r == 1:
                print("VIOLATION property=%s replay=%s" % (cid, a.replay))
            return r
        if a.tier not in ("quick", "thorough"):
            raise HarnessError("unknown tier " + a.tier)
        return run_check(cid, a.tier, seed, a.workers, a.cases, a.sigs_out)
    except HarnessError as e:
        print("[fsim] HARNESS ERROR: %s" % e, flush=True)
        return 2
