"""fsim core: build the target, materialise a world, compile a plan, run one simulated execution.

One *execution* = the real fselect binary + libfsim.so preloaded + one low-level plan.
Everything here is a pure function of its arguments (no PRNG, no clock reads that matter).
"""
import errno
import hashlib
import io
import json
import os
import shutil
import socket
import stat as statmod
import struct
import subprocess
import sys
import time
import zipfile

VERIF = os.path.dirname(os.path.dirname(os.path.abspath(__file__)))
REPO = os.environ.get("FSIM_REPO", "/repo")
CACHE = os.environ.get("FSIM_CACHE", os.path.join(VERIF, ".cache"))
TARGET = os.path.join(CACHE, "target")
BINARY = os.path.join(TARGET, "release", "fselect")
SHIM_SRC = os.path.join(VERIF, "shim", "fsim.c")
SHIM = os.path.join(CACHE, "libfsim.so")
SCRATCH_BASE = "/dev/shm"

EXIT_STEP_BUDGET = 97
EXIT_BLOCKED = 98
EXIT_SHIM_ERROR = 99


class HarnessError(Exception):
    """A failure of the machinery itself (exit 2), never a property violation."""


class CaseInvalid(Exception):
    """A (shrunk) case that cannot be run meaningfully; the minimiser skips it."""


# ----------------------------------------------------------------------------- build

def build(quiet=False):
    """Build fselect from /repo's working tree (release semantics) and the shim. Exit 2 on failure."""
    os.makedirs(CACHE, exist_ok=True)
    env = dict(os.environ)
    env.update({
        "CARGO_NET_OFFLINE": "true",
        "CARGO_PROFILE_RELEASE_LTO": "false",
        "CARGO_PROFILE_RELEASE_CODEGEN_UNITS": "16",
        "CARGO_TARGET_DIR": TARGET,
    })
    t0 = time.time()
    p = subprocess.run(["cargo", "build", "--offline", "--release", "--quiet"], cwd=REPO, env=env,
                       stdout=subprocess.PIPE, stderr=subprocess.STDOUT)
    if p.returncode != 0 or not os.path.exists(BINARY):
        sys.stderr.write(p.stdout.decode("utf-8", "replace"))
        raise HarnessError("cargo build failed")
    if (not os.path.exists(SHIM)) or os.path.getmtime(SHIM) < os.path.getmtime(SHIM_SRC):
        p = subprocess.run(["gcc", "-O2", "-w", "-fPIC", "-shared", "-o", SHIM + ".tmp", SHIM_SRC, "-ldl"],
                           stdout=subprocess.PIPE, stderr=subprocess.STDOUT)
        if p.returncode != 0:
            sys.stderr.write(p.stdout.decode("utf-8", "replace"))
            raise HarnessError("shim build failed")
        os.replace(SHIM + ".tmp", SHIM)
    if not quiet:
        print(f"[fsim] build ok in {time.time() - t0:.1f}s", flush=True)
    return BINARY


def binary_hash():
    h = hashlib.sha256()
    with open(BINARY, "rb") as f:
        for b in iter(lambda: f.read(1 << 20), b""):
            h.update(b)
    return h.hexdigest()[:16]


# ----------------------------------------------------------------------------- world

def make_zip(recipe):
    """recipe: {"members":[{"name","data"(str, latin-1) | "size", "mode"(int)|None, "date":[y,m,d,H,M,S], "deflate":bool, "dir":bool}], "comment": str}"""
    bio = io.BytesIO()
    with zipfile.ZipFile(bio, "w") as zf:
        for m in recipe.get("members", []):
            zi = zipfile.ZipInfo(m["name"], date_time=tuple(m.get("date", [2020, 1, 2, 3, 4, 6])))
            zi.compress_type = zipfile.ZIP_DEFLATED if m.get("deflate") else zipfile.ZIP_STORED
            zi.create_system = 3 if m.get("mode") is not None else m.get("system", 0)
            if m.get("mode") is not None:
                zi.external_attr = (m["mode"] & 0xFFFF) << 16
            if m["name"].endswith("/"):
                zi.external_attr |= 0x10
                data = b""
            else:
                data = m["data"].encode("latin-1") if "data" in m else b"z" * m.get("size", 0)
            zf.writestr(zi, data)
        if recipe.get("comment"):
            zf.comment = recipe["comment"].encode("latin-1")
    data = bytearray(bio.getvalue())
    if recipe.get("prefix"):
        # data in front of the archive (a self-extracting stub, a launcher script of an executable jar): still a legal archive,
        # readers find the members relative to the end-of-central-directory record
        stub = b"#!/bin/sh\nexec java -jar \"$0\" \"$@\"\n"
        return (stub + b"\0" * max(0, recipe["prefix"] - len(stub))) + make_zip({k: v for k, v in recipe.items() if k != "prefix"})
    enc = [i for i, m in enumerate(recipe.get("members", [])) if m.get("encrypted")]
    if enc:
        # a member marked as password-protected (general purpose flag bit 0, local and central header): it cannot be opened
        # without a password; its name and sizes are still in the central directory
        with zipfile.ZipFile(io.BytesIO(bytes(data))) as zf:
            infos = zf.infolist()
            pos = zf.start_dir
        for i, zi in enumerate(infos):
            assert data[pos:pos + 4] == b"PK\x01\x02"
            nlen, elen, clen = struct.unpack("<HHH", data[pos + 28:pos + 34])
            if i in enc:
                data[pos + 8] |= 1
                data[zi.header_offset + 6] |= 1
            pos += 46 + nlen + elen + clen
    return bytes(data)


def node_bytes(node):
    """Content of a regular-file node as bytes (None for sparse files)."""
    if "zip" in node:
        data = make_zip(node["zip"])
        if "trunc" in node:
            data = data[:node["trunc"]]
        for off, x in node.get("flip", []):
            if off < len(data):
                data = data[:off] + bytes([data[off] ^ x]) + data[off + 1:]
        return data
    if "hex" in node:
        return bytes.fromhex(node["hex"])
    if "pat" in node:
        # compact deterministic content: a repeated unit cut to size, with optional insertions
        pat = node["pat"]
        unit = pat["unit"].encode("latin-1") or b"\0"
        data = bytearray((unit * (pat["size"] // len(unit) + 1))[:pat["size"]])
        for off, text in pat.get("insert", []):
            t = text.encode("latin-1")
            if off + len(t) <= len(data):
                data[off:off + len(t)] = t
        return bytes(data)
    if "content" in node:
        return node["content"].encode("latin-1")
    if "sparse" in node:
        return None
    return b""


def materialise(world, root):
    """Create the world on tmpfs. `world` = {"nodes":[...]} with parents before children."""
    os.makedirs(root)
    later_times = []
    for n in world["nodes"]:
        p = os.path.join(root, n["path"])
        t = n["type"]
        if t == "dir":
            os.mkdir(p)
        elif t == "file":
            data = node_bytes(n)
            fd = os.open(p, os.O_WRONLY | os.O_CREAT | os.O_TRUNC, 0o644)
            try:
                if data is None:
                    os.ftruncate(fd, n["sparse"])
                elif data:
                    os.write(fd, data)
            finally:
                os.close(fd)
        elif t == "symlink":
            # "$W" in a target stands for the world root (absolute targets)
            os.symlink(n["target"].replace("$W", root), p)
        elif t == "hardlink":
            os.link(os.path.join(root, n["target"]), p)
        elif t == "fifo":
            os.mkfifo(p)
        elif t == "sock":
            s = socket.socket(socket.AF_UNIX)
            try:
                # bind needs a short path: bind relative to the parent
                cwd = os.getcwd()
                os.chdir(os.path.dirname(p))
                try:
                    s.bind(os.path.basename(p))
                finally:
                    os.chdir(cwd)
            finally:
                s.close()
        elif t == "chr":
            os.mknod(p, 0o644 | statmod.S_IFCHR, os.makedev(1, 3))
        elif t == "blk":
            os.mknod(p, 0o644 | statmod.S_IFBLK, os.makedev(7, 0))
        else:
            raise HarnessError("unknown node type " + t)
        if "mode" in n and t not in ("symlink", "hardlink"):
            os.chmod(p, n["mode"])
        if "owner" in n and t != "hardlink":
            os.chown(p, n["owner"][0], n["owner"][1], follow_symlinks=False)
        for k, v in n.get("xattrs", {}).items():
            os.setxattr(p, k, v.encode("latin-1"), follow_symlinks=False)
        if "mtime" in n:
            later_times.append((p, n["mtime"], n.get("atime", n["mtime"])))
    # times last (creating children touches directory mtimes); deepest first is not needed: utime only
    for p, mt, at in later_times:
        os.utime(p, ns=(at, mt), follow_symlinks=False)


# ----------------------------------------------------------------------------- plan

def penc(s):
    if isinstance(s, str):
        s = s.encode("utf-8", "surrogateescape")
    out = []
    for c in s:
        if (48 <= c <= 57) or (65 <= c <= 90) or (97 <= c <= 122) or c in b"._-/":
            out.append(chr(c))
        else:
            out.append("%%%02X" % c)
    return "".join(out)


ERRNO = {k: getattr(errno, k) for k in ("EACCES", "ENOENT", "ENOTDIR", "EIO", "EMFILE", "ELOOP", "EPERM", "ENOMEM", "EINTR", "EISDIR", "ENFILE", "EBADF", "ESTALE")}


def compile_plan(plan, world, root):
    """High-level (path keyed) plan -> low-level (real inode keyed) plan text."""
    lines = []
    st_root = os.lstat(root)
    lines.append("root " + penc(root))
    lines.append("dev %d" % st_root.st_dev)
    inos = {"": st_root.st_ino}
    lines.append("node %d %s" % (st_root.st_ino, "."))
    for n in world["nodes"]:
        try:
            st = os.lstat(os.path.join(root, n["path"]))
        except OSError as e:
            raise HarnessError("world node missing: %s (%s)" % (n["path"], e))
        if n["type"] == "hardlink":
            inos[n["path"]] = st.st_ino
            continue
        inos[n["path"]] = st.st_ino
        lines.append("node %d %s" % (st.st_ino, penc(n["path"])))

    def ino(path):
        if path not in inos:
            raise CaseInvalid("plan refers to unknown path %r" % path)
        return inos[path]

    for d, names in sorted(plan.get("order", {}).items()):
        if names:
            lines.append("order %d %s" % (ino(d), " ".join(penc(x) for x in names)))
    for d in sorted(plan.get("dtype_unknown", [])):
        lines.append("dtype %d" % ino(d))
    for p, kv in sorted(plan.get("stat", {}).items()):
        if kv:
            parts = []
            for k, v in sorted(kv.items()):
                if k in ("mode", "perm"):
                    parts.append("%s=%o" % (k, v))
                elif k == "nobtime":
                    parts.append("nobtime=1")
                else:
                    parts.append("%s=%d" % (k, v))
            lines.append("stat %d %s" % (ino(p), " ".join(parts)))
    for f in plan.get("fail", []):
        arg = f.get("arg", 0)
        if f["call"] == "readdir" and f.get("then_end"):
            arg = -arg - 1  # the error ends the listing: entries behind it are never delivered
        lines.append("fail %s %d %d %d" % (f["call"], ino(f["path"]), ERRNO[f["errno"]], arg))
    for m in plan.get("mutate", []):
        lines.append("mutate %s %d %d %s %s %d" % (m["call"], ino(m["path"]), m.get("nth", 0), m["action"],
                                                   penc(os.path.join(root, m["target"])), m.get("arg", 0)))
    for p, c in sorted(plan.get("chunks", {}).items()):
        lines.append("chunks %d %d %s" % (ino(p), 1 if c.get("cycle") else 0, " ".join(str(x) for x in c["sizes"])))
    if plan.get("out_accept"):
        c = plan["out_accept"]
        lines.append("out_accept %d %s" % (1 if c.get("cycle") else 0, " ".join(str(x) for x in c["sizes"])))
    if plan.get("out_epipe") is not None:
        lines.append("out_epipe %d" % plan["out_epipe"])
    if plan.get("clock") is not None:
        lines.append("clock %d %d" % (plan["clock"][0], plan["clock"][1]))
    if plan.get("entropy") is not None:
        lines.append("entropy %d" % plan["entropy"])
    if plan.get("ident") or plan.get("users") or plan.get("groups"):
        lines.append("ident")
    for uid, name in sorted(plan.get("users", {}).items(), key=lambda kv: int(kv[0])):
        lines.append("user %d %s" % (int(uid), penc(name)))
    for gid, name in sorted(plan.get("groups", {}).items(), key=lambda kv: int(kv[0])):
        lines.append("group %d %s" % (int(gid), penc(name)))
    budget = plan.get("budget", default_budget(world, 1))
    if plan.get("out_accept"):
        budget += 400000  # every short write is one event; the stream may be written byte by byte
    lines.append("budget %d" % budget)
    if plan.get("tty"):
        lines.append("tty 1")
    if plan.get("clock_jump") is not None:
        lines.append("clock_jump %d %d" % (plan["clock_jump"][0], plan["clock_jump"][1]))
    if plan.get("fifo_block") is not None:
        lines.append("fifo_block %d" % plan["fifo_block"])
    return "\n".join(lines) + "\n"


def default_budget(world, nroots):
    return 400 + 80 * (len(world["nodes"]) + 1) * max(1, nroots)


# ----------------------------------------------------------------------------- run

class Result:
    __slots__ = ("status", "signal", "stdout", "stderr", "log", "sim", "wall")

    def __init__(self):
        self.status = None
        self.signal = None
        self.stdout = b""
        self.stderr = b""
        self.log = []
        self.sim = None  # None | "STEP_BUDGET" | "BLOCKED_FOREVER" | "TIMEOUT"
        self.wall = 0.0

    def rows(self, ncols):
        """Rows of an `into list` stream: values are NUL terminated."""
        parts = self.stdout.split(b"\0")
        if parts and parts[-1] == b"":
            parts.pop()
        else:
            # stream cut in the middle of a value
            pass
        if ncols <= 0:
            return []
        return [tuple(parts[i:i + ncols]) for i in range(0, len(parts) - len(parts) % ncols if len(parts) % ncols else len(parts), ncols)]

    def injected(self):
        return [l for l in self.log if " inj:" in l]

    def summary(self):
        return {"status": self.status, "signal": self.signal, "sim": self.sim,
                "stdout": self.stdout[:400].decode("utf-8", "replace"),
                "stderr": self.stderr[:400].decode("utf-8", "replace"), "events": len(self.log)}


def log_signature(log):
    """Hash of the sequence of (call, object, outcome) — seq numbers dropped."""
    h = hashlib.blake2b(digest_size=8)
    for l in log:
        h.update(l.split(" ", 1)[1].encode() if " " in l else l.encode())
        h.update(b"\n")
    return h.hexdigest()


BASE_ENV = {
    "PATH": "/usr/bin:/bin",
    "LANG": "C.UTF-8",
    "RUST_BACKTRACE": "0",
}


def execute(rundir, argv, cwd, tz, plan_text, timeout=60.0, binary=None, keep_plan=False, config_text=None, nofile=None, aslimit=None, stdin_text=None):
    """Run the binary once under the shim. rundir is a private scratch directory."""
    plan_path = os.path.join(rundir, "plan")
    log_path = os.path.join(rundir, "log")
    out_path = os.path.join(rundir, "out")
    err_path = os.path.join(rundir, "err")
    home = os.path.join(rundir, "home")
    # a fresh HOME for every execution: fselect saves its configuration on the first run and
    # parses it on later ones, which shifts the per-process hash seeds (found by the C17.C prefix law)
    shutil.rmtree(home, ignore_errors=True)
    os.makedirs(home)
    if config_text is not None:
        # the user's configuration file (directories::ProjectDirs -> ~/.config/fselect/config.toml)
        os.makedirs(os.path.join(home, ".config", "fselect"))
        with open(os.path.join(home, ".config", "fselect", "config.toml"), "w") as f:
            f.write(config_text)
    with open(plan_path, "w") as f:
        f.write(plan_text)
    env = dict(BASE_ENV)
    env.update({"HOME": home, "TZ": tz, "LD_PRELOAD": SHIM, "FSIM_PLAN": plan_path, "FSIM_LOG": log_path})
    res = Result()
    t0 = time.time()
    with open(out_path, "wb") as fo, open(err_path, "wb") as fe:
        try:
            pre = None
            if nofile or aslimit:
                # a small descriptor table (RLIMIT_NOFILE) / address space (RLIMIT_AS): the kernel enforces them,
                # deterministically for a single-threaded run
                import resource

                def pre():
                    if nofile:
                        resource.setrlimit(resource.RLIMIT_NOFILE, (nofile, nofile))
                    if aslimit:
                        resource.setrlimit(resource.RLIMIT_AS, (aslimit, aslimit))
            if stdin_text is not None:
                p = subprocess.run([binary or BINARY] + list(argv), cwd=cwd, env=env, input=stdin_text.encode("utf-8", "surrogateescape"),
                                   stdout=fo, stderr=fe, timeout=timeout, preexec_fn=pre)
            else:
                p = subprocess.run([binary or BINARY] + list(argv), cwd=cwd, env=env, stdin=subprocess.DEVNULL,
                                   stdout=fo, stderr=fe, timeout=timeout, preexec_fn=pre)
            rc = p.returncode
        except subprocess.TimeoutExpired:
            rc = None
            res.sim = "TIMEOUT"
    res.wall = time.time() - t0
    with open(out_path, "rb") as f:
        res.stdout = f.read()
    with open(err_path, "rb") as f:
        res.stderr = f.read()
    try:
        with open(log_path, "r", encoding="utf-8", errors="replace") as f:
            res.log = f.read().splitlines()
    except FileNotFoundError:
        res.log = []
    if rc is not None:
        if rc < 0:
            res.signal = -rc
        else:
            res.status = rc
        if rc == EXIT_STEP_BUDGET:
            res.sim = "STEP_BUDGET"
        elif rc == EXIT_BLOCKED:
            res.sim = "BLOCKED_FOREVER"
        elif rc == EXIT_SHIM_ERROR:
            raise HarnessError("shim error: " + res.stderr.decode("utf-8", "replace"))
    return res


_TIMEOUTS_SEEN = 0


class Sandbox:
    """A scratch directory holding one materialised world; several executions may share it."""

    _counter = 0

    def __init__(self, world, tag="w"):
        Sandbox._counter += 1
        # constant-length scratch path: output sizes and link-text lengths must not depend on pid digits
        self.base = os.path.join(SCRATCH_BASE, "fsim.%07d.%07d" % (os.getpid() % 10 ** 7, Sandbox._counter % 10 ** 7))
        if os.path.exists(self.base):
            shutil.rmtree(self.base, ignore_errors=True)
        os.makedirs(self.base)
        # the world sits below six private single-child directories: a walker that escapes upwards
        # (a relative link target resolved against the wrong base) meets only empty, constant
        # surroundings, never another worker's sandbox or the harness's own files
        self.holder = os.path.join(self.base, "i", "s", "o", "l", "a", "t")
        os.makedirs(self.holder)
        self.root = os.path.join(self.holder, tag)
        self.world = world
        materialise(world, self.root)
        self.nexec = 0

    def run(self, argv, plan=None, cwd="", tz="UTC", timeout=60.0, config=None, stdin_text=None):
        plan = plan or {}
        if config is None:
            config = plan.get("config")  # a configuration file as part of the environment E
        text = compile_plan(plan, self.world, self.root)
        self.nexec += 1
        global _TIMEOUTS_SEEN
        if _TIMEOUTS_SEEN >= 2:
            # this worker has already met (and confirmed) wall-clock timeouts: a tree that spins without system calls must not
            # cost two full backstop periods per execution for the rest of the run
            timeout = min(timeout, 10.0)
        res = execute(self.base, argv, os.path.join(self.root, cwd), tz, text, timeout=timeout, config_text=config, nofile=plan.get("nofile"), aslimit=plan.get("aslimit"), stdin_text=stdin_text)
        if res.sim == "TIMEOUT" and _TIMEOUTS_SEEN >= 2:
            return res
        if res.sim == "TIMEOUT":
            _TIMEOUTS_SEEN += 1
            # backstop only: reproduce once before believing it (DESIGN 4.2)
            res2 = execute(self.base, argv, os.path.join(self.root, cwd), tz, text, timeout=timeout, config_text=config, nofile=plan.get("nofile"), aslimit=plan.get("aslimit"), stdin_text=stdin_text)
            if res2.sim != "TIMEOUT":
                raise HarnessError("unreproduced wall-clock timeout")
            return res2
        return res

    def rebuild(self):
        """Re-materialise the world (after a run whose plan mutated it)."""
        shutil.rmtree(self.root, ignore_errors=True)
        materialise(self.world, self.root)

    def close(self):
        shutil.rmtree(self.base, ignore_errors=True)

    def __enter__(self):
        return self

    def __exit__(self, *a):
        self.close()
