/* fsim: deterministic environment simulator for fselect, preloaded at the libc seam.
 *
 * The shim executes a plan (FSIM_PLAN). It contains no PRNG and reads no real clock:
 * every choice was made by the orchestrator. Objects of the simulated world are keyed
 * by their real (tmpfs) inode number, so aliases through links resolve to one node.
 * Every in-scope call is appended to FSIM_LOG as one line: the recorded history.
 */
#define _GNU_SOURCE
#include <dirent.h>
#include <dlfcn.h>
#include <errno.h>
#include <fcntl.h>
#include <grp.h>
#include <limits.h>
#include <pwd.h>
#include <signal.h>
#include <stdarg.h>
#include <stdint.h>
#include <stdio.h>
#include <stdlib.h>
#include <string.h>
#include <sys/stat.h>
#include <sys/syscall.h>
#include <sys/sysmacros.h>
#include <sys/time.h>
#include <sys/types.h>
#include <sys/uio.h>
#include <time.h>
#include <unistd.h>

#define EXIT_STEP_BUDGET 97
#define EXIT_BLOCKED 98
#define EXIT_SHIM_ERROR 99

enum { C_OPENDIR = 1, C_READDIR, C_DIRENT, C_STAT, C_OPEN, C_READ, C_READLINK, C_REALPATH, C_NCALLS };
static const char *call_names[] = {"?", "opendir", "readdir", "dirent", "stat", "open", "read", "readlink", "realpath"};

enum { OV_MODE = 1, OV_PERM = 2, OV_UID = 4, OV_GID = 8, OV_NLINK = 16, OV_SIZE = 32, OV_BLOCKS = 64,
       OV_MTIME = 128, OV_ATIME = 256, OV_CTIME = 512, OV_BTIME = 1024, OV_INO = 2048, OV_DEV = 4096, OV_DINO = 8192, OV_NOBTIME = 16384 };

typedef struct Node {
    unsigned long ino;
    char *rel;
    unsigned ov;
    unsigned long o_mode, o_uid, o_gid, o_nlink, o_size, o_blocks, o_ino, o_dev, o_dino;
    long long o_mtime, o_atime, o_ctime, o_btime;
    char **order; int norder;
    int dtype_unknown;
    long *chunks; int nchunks; int chunk_cycle; int chunk_i;
} Node;

typedef struct { int call; unsigned long ino; int err; long arg; int count; } Fail;
enum { A_UNLINK = 1, A_RMTREE, A_REPLACE, A_TRUNCATE, A_MKFILE, A_PROMOTE };
typedef struct { int call; unsigned long ino; long nth; int count; int action; char *path; long arg; int done; } Mut;
typedef struct { unsigned long id; char *name; } Ident;

static int g_state = 0; /* 0 = not initialised, 1 = active, 2 = passthrough, 3 = initialising */
static char *g_root = NULL; static size_t g_rootlen = 0;
static unsigned long g_dev = 0;
static Node *g_nodes = NULL; static int g_nnodes = 0, g_capnodes = 0;
static Fail g_fails[4096]; static int g_nfails = 0;
static Mut g_muts[64]; static int g_nmuts = 0;
static Ident g_users[64], g_groups[64]; static int g_nusers = 0, g_ngroups = 0; static int g_ident = 0;
static long *g_out_sched = NULL; static int g_nout = 0, g_out_cycle = 0, g_out_i = 0;
static long g_epipe_after = -1; static long g_out_accepted = 0;
static int g_clock = 0; static long long g_clock_ns = 0, g_clock_tick = 0, g_clock_calls = 0, g_mono_calls = 0;
static int g_entropy = 0; static uint64_t g_entropy_seed = 0, g_entropy_ctr = 0;
static long g_budget = 0; static long g_seq = 0;
static int g_fifo_block = 1;
static long long g_jump_ns = 0; static long g_jump_k = -1; /* plan `clock_jump <ns> <k>`: from the k-th wall-clock read on the clock shows <ns> */
static int g_tty = 0; /* plan `tty 1`: the consumer of stdout is a terminal */
static int g_logfd = -1;
static int g_sorted = 0;

#define FDMAX 4096
static Node *g_fdnode[FDMAX];
static unsigned char g_fdrand[FDMAX];

typedef struct { DIR *dp; Node *node; struct dirent64 *ents; int n; int pos; int delivered; int failed; struct dirent64 cur; } DirState;
static DirState g_dirs[256];

/* ---------------------------------------------------------------- real functions */
static long (*real_syscall)(long, ...) = NULL;
#define REAL(ret, name, ...) static ret (*real_##name)(__VA_ARGS__) = NULL
REAL(int, open, const char *, int, ...);
REAL(int, openat, int, const char *, int, ...);
REAL(int, close, int);
REAL(ssize_t, read, int, void *, size_t);
REAL(ssize_t, write, int, const void *, size_t);
REAL(DIR *, opendir, const char *);
REAL(DIR *, fdopendir, int);
REAL(struct dirent64 *, readdir64, DIR *);
REAL(int, closedir, DIR *);
REAL(ssize_t, readlink, const char *, char *, size_t);
REAL(ssize_t, readlinkat, int, const char *, char *, size_t);
REAL(char *, realpath, const char *, char *);
REAL(int, clock_gettime, clockid_t, struct timespec *);
REAL(int, getpwuid_r, uid_t, struct passwd *, char *, size_t, struct passwd **);
REAL(int, getgrgid_r, gid_t, struct group *, char *, size_t, struct group **);

static void *must_sym(const char *n) {
    void *p = dlsym(RTLD_NEXT, n);
    return p;
}

static void resolve_all(void) {
    real_syscall = must_sym("syscall");
    real_open = must_sym("open64");
    real_openat = must_sym("openat64");
    real_close = must_sym("close");
    real_read = must_sym("read");
    real_write = must_sym("write");
    real_opendir = must_sym("opendir");
    real_fdopendir = must_sym("fdopendir");
    real_readdir64 = must_sym("readdir64");
    real_closedir = must_sym("closedir");
    real_readlink = must_sym("readlink");
    real_readlinkat = must_sym("readlinkat");
    real_realpath = must_sym("realpath");
    real_clock_gettime = must_sym("clock_gettime");
    real_getpwuid_r = must_sym("getpwuid_r");
    real_getgrgid_r = must_sym("getgrgid_r");
}

static int raw_fstatat(int dirfd, const char *path, struct stat *st, int flags) {
    long r = real_syscall(SYS_newfstatat, (long)dirfd, path, st, (long)flags);
    return (int)r;
}
static int raw_fstat(int fd, struct stat *st) {
    long r = real_syscall(SYS_fstat, (long)fd, st);
    return (int)r;
}

/* ---------------------------------------------------------------- logging */
static void die(const char *msg) {
    if (real_write) { real_write(2, "fsim: ", 6); real_write(2, msg, strlen(msg)); real_write(2, "\n", 1); }
    _exit(EXIT_SHIM_ERROR);
}

static void logline(const char *fmt, ...) {
    if (g_logfd < 0) return;
    char buf[8192];
    int n = snprintf(buf, sizeof buf, "%ld ", g_seq);
    va_list ap; va_start(ap, fmt);
    int m = vsnprintf(buf + n, sizeof buf - n - 2, fmt, ap);
    va_end(ap);
    if (m < 0) m = 0;
    if ((size_t)m > sizeof buf - n - 2) m = sizeof buf - n - 2;
    n += m; buf[n++] = '\n';
    int saved = errno;
    real_write(g_logfd, buf, n);
    errno = saved;
}

/* encode a path for the log: world root -> $W, bytes outside the safe set -> %XX */
static const char *enc(const char *s, char *out, size_t cap) {
    size_t o = 0;
    if (!s) { snprintf(out, cap, "(null)"); return out; }
    if (g_root && strncmp(s, g_root, g_rootlen) == 0 && (s[g_rootlen] == '/' || s[g_rootlen] == 0)) {
        out[o++] = '$'; out[o++] = 'W'; s += g_rootlen;
    }
    for (; *s && o + 4 < cap; s++) {
        unsigned char c = (unsigned char)*s;
        if ((c >= 'a' && c <= 'z') || (c >= 'A' && c <= 'Z') || (c >= '0' && c <= '9') || c == '.' || c == '_' || c == '-' || c == '/' || c == '$') out[o++] = c;
        else { static const char hx[] = "0123456789ABCDEF"; out[o++] = '%'; out[o++] = hx[c >> 4]; out[o++] = hx[c & 15]; }
    }
    out[o] = 0;
    return out;
}

static void step(void) {
    g_seq++;
    if (g_budget > 0 && g_seq > g_budget) {
        logline("STEP_BUDGET exceeded");
        _exit(EXIT_STEP_BUDGET);
    }
}

/* ---------------------------------------------------------------- plan parsing */
static char *dec(const char *s) {
    size_t n = strlen(s); char *o = malloc(n + 1); size_t j = 0;
    for (size_t i = 0; i < n; i++) {
        if (s[i] == '%' && i + 2 < n + 0 && s[i + 1] && s[i + 2]) {
            char h[3] = {s[i + 1], s[i + 2], 0}; o[j++] = (char)strtol(h, NULL, 16); i += 2;
        } else o[j++] = s[i];
    }
    o[j] = 0; return o;
}

static int node_cmp(const void *a, const void *b) {
    unsigned long x = ((const Node *)a)->ino, y = ((const Node *)b)->ino;
    return x < y ? -1 : x > y;
}

static Node *node_by_ino(unsigned long ino) {
    if (!g_sorted) { qsort(g_nodes, g_nnodes, sizeof(Node), node_cmp); g_sorted = 1; }
    int lo = 0, hi = g_nnodes - 1;
    while (lo <= hi) { int mid = (lo + hi) / 2; if (g_nodes[mid].ino == ino) return &g_nodes[mid]; if (g_nodes[mid].ino < ino) lo = mid + 1; else hi = mid - 1; }
    return NULL;
}

static int call_id(const char *s) {
    for (int i = 1; i < C_NCALLS; i++) if (!strcmp(s, call_names[i])) return i;
    die("plan: unknown call"); return 0;
}

static char *next_tok(char **p) {
    char *s = *p; while (*s == ' ') s++;
    if (!*s) return NULL;
    char *e = s; while (*e && *e != ' ') e++;
    if (*e) { *e = 0; *p = e + 1; } else *p = e;
    return s;
}

static void parse_plan(char *text) {
    /* pass 1: nodes */
    char *save = strdup(text);
    for (int pass = 0; pass < 2; pass++) {
        char *buf = pass == 0 ? text : save;
        char *line = buf;
        while (line && *line) {
            char *nl = strchr(line, '\n'); if (nl) *nl = 0;
            char *p = line; char *kw = next_tok(&p);
            if (kw && *kw != '#') {
                if (pass == 0) {
                    if (!strcmp(kw, "node")) {
                        char *a = next_tok(&p), *b = next_tok(&p);
                        if (!a || !b) die("plan: node");
                        if (g_nnodes == g_capnodes) { g_capnodes = g_capnodes ? g_capnodes * 2 : 256; g_nodes = realloc(g_nodes, g_capnodes * sizeof(Node)); }
                        Node *n = &g_nodes[g_nnodes++]; memset(n, 0, sizeof *n);
                        n->ino = strtoul(a, NULL, 10); n->rel = dec(b);
                    }
                } else {
                    if (!strcmp(kw, "node")) {
                    } else if (!strcmp(kw, "root")) { char *a = next_tok(&p); g_root = dec(a); g_rootlen = strlen(g_root);
                    } else if (!strcmp(kw, "dev")) { g_dev = strtoul(next_tok(&p), NULL, 10);
                    } else if (!strcmp(kw, "order")) {
                        Node *n = node_by_ino(strtoul(next_tok(&p), NULL, 10)); if (!n) die("plan: order node");
                        char *t; int cap = 0;
                        while ((t = next_tok(&p))) { if (n->norder == cap) { cap = cap ? cap * 2 : 16; n->order = realloc(n->order, cap * sizeof(char *)); } n->order[n->norder++] = dec(t); }
                    } else if (!strcmp(kw, "dtype")) {
                        Node *n = node_by_ino(strtoul(next_tok(&p), NULL, 10)); if (!n) die("plan: dtype node");
                        n->dtype_unknown = 1;
                    } else if (!strcmp(kw, "stat")) {
                        Node *n = node_by_ino(strtoul(next_tok(&p), NULL, 10)); if (!n) die("plan: stat node");
                        char *t;
                        while ((t = next_tok(&p))) {
                            char *eq = strchr(t, '='); if (!eq) die("plan: stat kv"); *eq = 0; char *v = eq + 1;
                            if (!strcmp(t, "mode")) { n->ov |= OV_MODE; n->o_mode = strtoul(v, NULL, 8); }
                            else if (!strcmp(t, "perm")) { n->ov |= OV_PERM; n->o_mode = strtoul(v, NULL, 8); }
                            else if (!strcmp(t, "uid")) { n->ov |= OV_UID; n->o_uid = strtoul(v, NULL, 10); }
                            else if (!strcmp(t, "gid")) { n->ov |= OV_GID; n->o_gid = strtoul(v, NULL, 10); }
                            else if (!strcmp(t, "nlink")) { n->ov |= OV_NLINK; n->o_nlink = strtoul(v, NULL, 10); }
                            else if (!strcmp(t, "size")) { n->ov |= OV_SIZE; n->o_size = strtoul(v, NULL, 10); }
                            else if (!strcmp(t, "blocks")) { n->ov |= OV_BLOCKS; n->o_blocks = strtoul(v, NULL, 10); }
                            else if (!strcmp(t, "mtime")) { n->ov |= OV_MTIME; n->o_mtime = strtoll(v, NULL, 10); }
                            else if (!strcmp(t, "atime")) { n->ov |= OV_ATIME; n->o_atime = strtoll(v, NULL, 10); }
                            else if (!strcmp(t, "ctime")) { n->ov |= OV_CTIME; n->o_ctime = strtoll(v, NULL, 10); }
                            else if (!strcmp(t, "btime")) { n->ov |= OV_BTIME; n->o_btime = strtoll(v, NULL, 10); }
                            else if (!strcmp(t, "ino")) { n->ov |= OV_INO; n->o_ino = strtoul(v, NULL, 10); }
                            else if (!strcmp(t, "dev")) { n->ov |= OV_DEV; n->o_dev = strtoul(v, NULL, 10); }
                            else if (!strcmp(t, "nobtime")) { n->ov |= OV_NOBTIME; } /* a file system without birth times */
                            else if (!strcmp(t, "dino")) { n->ov |= OV_DINO; n->o_dino = strtoul(v, NULL, 10); } /* d_ino of a mount point: the covered directory's number */
                            else die("plan: stat field");
                        }
                    } else if (!strcmp(kw, "fail")) {
                        if (g_nfails >= 4096) die("plan: too many fails");
                        Fail *f = &g_fails[g_nfails++]; memset(f, 0, sizeof *f);
                        f->call = call_id(next_tok(&p)); f->ino = strtoul(next_tok(&p), NULL, 10);
                        f->err = atoi(next_tok(&p)); char *t = next_tok(&p); f->arg = t ? atol(t) : 0;
                    } else if (!strcmp(kw, "mutate")) {
                        if (g_nmuts >= 64) die("plan: too many mutations");
                        Mut *m = &g_muts[g_nmuts++]; memset(m, 0, sizeof *m);
                        m->call = call_id(next_tok(&p)); m->ino = strtoul(next_tok(&p), NULL, 10); m->nth = atol(next_tok(&p));
                        char *a = next_tok(&p);
                        if (!strcmp(a, "unlink")) m->action = A_UNLINK; else if (!strcmp(a, "rmtree")) m->action = A_RMTREE;
                        else if (!strcmp(a, "replace")) m->action = A_REPLACE; else if (!strcmp(a, "truncate")) m->action = A_TRUNCATE;
                        else if (!strcmp(a, "mkfile")) m->action = A_MKFILE; else if (!strcmp(a, "promote")) m->action = A_PROMOTE; else die("plan: mutate action");
                        m->path = dec(next_tok(&p)); char *t = next_tok(&p); m->arg = t ? atol(t) : 0;
                    } else if (!strcmp(kw, "chunks")) {
                        Node *n = node_by_ino(strtoul(next_tok(&p), NULL, 10)); if (!n) die("plan: chunks node");
                        n->chunk_cycle = atoi(next_tok(&p)); char *t; int cap = 0;
                        while ((t = next_tok(&p))) { if (n->nchunks == cap) { cap = cap ? cap * 2 : 16; n->chunks = realloc(n->chunks, cap * sizeof(long)); } n->chunks[n->nchunks++] = atol(t); }
                    } else if (!strcmp(kw, "out_accept")) {
                        g_out_cycle = atoi(next_tok(&p)); char *t; int cap = 0;
                        while ((t = next_tok(&p))) { if (g_nout == cap) { cap = cap ? cap * 2 : 16; g_out_sched = realloc(g_out_sched, cap * sizeof(long)); } g_out_sched[g_nout++] = atol(t); }
                    } else if (!strcmp(kw, "out_epipe")) { g_epipe_after = atol(next_tok(&p));
                    } else if (!strcmp(kw, "clock")) { g_clock = 1; g_clock_ns = strtoll(next_tok(&p), NULL, 10); g_clock_tick = strtoll(next_tok(&p), NULL, 10);
                    } else if (!strcmp(kw, "entropy")) { g_entropy = 1; g_entropy_seed = strtoull(next_tok(&p), NULL, 10);
                    } else if (!strcmp(kw, "ident")) { g_ident = 1;
                    } else if (!strcmp(kw, "user")) { if (g_nusers >= 64) die("plan: users"); g_users[g_nusers].id = strtoul(next_tok(&p), NULL, 10); g_users[g_nusers++].name = dec(next_tok(&p)); g_ident = 1;
                    } else if (!strcmp(kw, "group")) { if (g_ngroups >= 64) die("plan: groups"); g_groups[g_ngroups].id = strtoul(next_tok(&p), NULL, 10); g_groups[g_ngroups++].name = dec(next_tok(&p)); g_ident = 1;
                    } else if (!strcmp(kw, "budget")) { g_budget = atol(next_tok(&p));
                    } else if (!strcmp(kw, "fifo_block")) { g_fifo_block = atoi(next_tok(&p));
                    } else if (!strcmp(kw, "tty")) { g_tty = atoi(next_tok(&p));
                    } else if (!strcmp(kw, "clock_jump")) { g_jump_ns = strtoll(next_tok(&p), NULL, 10); g_jump_k = atol(next_tok(&p));
                    } else die("plan: unknown keyword");
                }
            }
            line = nl ? nl + 1 : NULL;
        }
    }
    free(save);
}

static void init(void) {
    if (g_state) return;
    g_state = 3;
    resolve_all();
    const char *plan = getenv("FSIM_PLAN");
    if (!plan || !*plan) { g_state = 2; return; }
    int fd = real_open(plan, O_RDONLY | O_CLOEXEC);
    if (fd < 0) die("cannot open FSIM_PLAN");
    size_t cap = 1 << 16, len = 0; char *text = malloc(cap);
    for (;;) {
        if (len + 4096 > cap) { cap *= 2; text = realloc(text, cap); }
        ssize_t r = real_read(fd, text + len, cap - len - 1);
        if (r < 0) die("cannot read FSIM_PLAN");
        if (r == 0) break;
        len += r;
    }
    text[len] = 0; real_close(fd);
    const char *lg = getenv("FSIM_LOG");
    if (lg && *lg) {
        g_logfd = real_open(lg, O_WRONLY | O_CREAT | O_TRUNC | O_CLOEXEC, 0644);
        if (g_logfd < 0) die("cannot open FSIM_LOG");
        /* move it out of the way so that the program's fd numbers are unaffected */
        int hi = fcntl(g_logfd, F_DUPFD_CLOEXEC, 1000);
        if (hi >= 0) { real_close(g_logfd); g_logfd = hi; }
    }
    parse_plan(text);
    free(text);
    g_state = 1;
}

#define ACTIVE() (g_state == 1 || (g_state == 0 && (init(), g_state == 1)))
#define ENSURE() do { if (g_state == 0) init(); } while (0)

/* ---------------------------------------------------------------- node lookup, rules */
static Node *node_of(unsigned long dev, unsigned long ino) {
    if (dev != g_dev) return NULL;
    return node_by_ino(ino);
}
static Node *node_at(int dirfd, const char *path, int follow) {
    struct stat st;
    if (!path) return NULL;
    if (raw_fstatat(dirfd, path, &st, follow ? 0 : AT_SYMLINK_NOFOLLOW) != 0) return NULL;
    return node_of(st.st_dev, st.st_ino);
}

/* returns errno to inject or 0. arg semantics depend on the call: nth occurrence (0 = always) */
static int check_fail(int call, Node *n) {
    if (!n) return 0;
    for (int i = 0; i < g_nfails; i++) {
        Fail *f = &g_fails[i];
        if (f->call != call || f->ino != n->ino) continue;
        if (call == C_READ || call == C_READDIR) continue; /* handled by their own code */
        f->count++;
        if (f->arg == 0 || f->count == f->arg) return f->err;
    }
    return 0;
}

static void rmtree(const char *path) {
    struct stat st;
    if (raw_fstatat(AT_FDCWD, path, &st, AT_SYMLINK_NOFOLLOW) != 0) return;
    if (S_ISDIR(st.st_mode)) {
        DIR *d = real_opendir(path);
        if (d) {
            struct dirent64 *e;
            while ((e = real_readdir64(d))) {
                if (!strcmp(e->d_name, ".") || !strcmp(e->d_name, "..")) continue;
                char sub[PATH_MAX]; snprintf(sub, sizeof sub, "%s/%s", path, e->d_name);
                rmtree(sub);
            }
            real_closedir(d);
        }
        rmdir(path);
    } else unlink(path);
}

static void run_mutations(int call, Node *n) {
    if (!n) return;
    for (int i = 0; i < g_nmuts; i++) {
        Mut *m = &g_muts[i];
        if (m->done || m->call != call || m->ino != n->ino) continue;
        m->count++;
        if (m->nth != 0 && m->count != m->nth) continue;
        m->done = 1;
        int saved = errno; char e1[PATH_MAX * 3];
        switch (m->action) {
        case A_UNLINK: unlink(m->path); break;
        case A_RMTREE: rmtree(m->path); break;
        case A_REPLACE: { rmtree(m->path); int fd = real_open(m->path, O_WRONLY | O_CREAT | O_TRUNC, 0644); if (fd >= 0) { real_write(fd, "x", 1); real_close(fd); } break; }
        case A_TRUNCATE: truncate(m->path, m->arg); break;
        case A_MKFILE: { int fd = real_open(m->path, O_WRONLY | O_CREAT | O_TRUNC, 0644); if (fd >= 0) { real_write(fd, "new\n", 4); real_close(fd); } break; }
        case A_PROMOTE: { /* "<path>.next" (prepared in the world) atomically takes the place of <path>: a link re-pointed by somebody else */
            char nx[PATH_MAX]; snprintf(nx, sizeof nx, "%s.next", m->path); rename(nx, m->path); break; }
        }
        logline("mutate %s after %s %s inj:mutate", m->action == A_UNLINK ? "unlink" : m->action == A_RMTREE ? "rmtree" : m->action == A_REPLACE ? "replace" : m->action == A_TRUNCATE ? "truncate" : m->action == A_PROMOTE ? "promote" : "mkfile",
                call_names[call], enc(m->path, e1, sizeof e1));
        errno = saved;
    }
}

/* ---------------------------------------------------------------- stat overlay */
static void ts_from_ns(long long ns, long long *sec, long *nsec) {
    long long s = ns / 1000000000LL; long long r = ns % 1000000000LL;
    if (r < 0) { r += 1000000000LL; s -= 1; }
    *sec = s; *nsec = (long)r;
}

static void overlay_stat(Node *n, struct stat *st) {
    if (!n || !n->ov) return;
    long long s; long ns;
    if (n->ov & OV_MODE) st->st_mode = n->o_mode;
    if (n->ov & OV_PERM) st->st_mode = (st->st_mode & S_IFMT) | (n->o_mode & 07777);
    if (n->ov & OV_UID) st->st_uid = n->o_uid;
    if (n->ov & OV_GID) st->st_gid = n->o_gid;
    if (n->ov & OV_NLINK) st->st_nlink = n->o_nlink;
    if (n->ov & OV_SIZE) st->st_size = n->o_size;
    if (n->ov & OV_BLOCKS) st->st_blocks = n->o_blocks;
    if (n->ov & OV_INO) st->st_ino = n->o_ino;
    if (n->ov & OV_DEV) st->st_dev = n->o_dev;
    if (n->ov & OV_MTIME) { ts_from_ns(n->o_mtime, &s, &ns); st->st_mtim.tv_sec = s; st->st_mtim.tv_nsec = ns; }
    if (n->ov & OV_ATIME) { ts_from_ns(n->o_atime, &s, &ns); st->st_atim.tv_sec = s; st->st_atim.tv_nsec = ns; }
    if (n->ov & OV_CTIME) { ts_from_ns(n->o_ctime, &s, &ns); st->st_ctim.tv_sec = s; st->st_ctim.tv_nsec = ns; }
}

static void overlay_statx(Node *n, struct statx *sx) {
    if (!n || !n->ov) return;
    long long s; long ns;
    if (n->ov & OV_MODE) sx->stx_mode = n->o_mode;
    if (n->ov & OV_PERM) sx->stx_mode = (sx->stx_mode & S_IFMT) | (n->o_mode & 07777);
    if (n->ov & OV_UID) sx->stx_uid = n->o_uid;
    if (n->ov & OV_GID) sx->stx_gid = n->o_gid;
    if (n->ov & OV_NLINK) sx->stx_nlink = n->o_nlink;
    if (n->ov & OV_SIZE) sx->stx_size = n->o_size;
    if (n->ov & OV_BLOCKS) sx->stx_blocks = n->o_blocks;
    if (n->ov & OV_INO) sx->stx_ino = n->o_ino;
    if (n->ov & OV_DEV) { sx->stx_dev_major = major(n->o_dev); sx->stx_dev_minor = minor(n->o_dev); }
    if (n->ov & OV_MTIME) { ts_from_ns(n->o_mtime, &s, &ns); sx->stx_mtime.tv_sec = s; sx->stx_mtime.tv_nsec = ns; }
    if (n->ov & OV_ATIME) { ts_from_ns(n->o_atime, &s, &ns); sx->stx_atime.tv_sec = s; sx->stx_atime.tv_nsec = ns; }
    if (n->ov & OV_CTIME) { ts_from_ns(n->o_ctime, &s, &ns); sx->stx_ctime.tv_sec = s; sx->stx_ctime.tv_nsec = ns; }
    if (n->ov & OV_BTIME) { ts_from_ns(n->o_btime, &s, &ns); sx->stx_btime.tv_sec = s; sx->stx_btime.tv_nsec = ns; sx->stx_mask |= STATX_BTIME; }
    if (n->ov & OV_NOBTIME) { sx->stx_mask &= ~STATX_BTIME; sx->stx_btime.tv_sec = 0; sx->stx_btime.tv_nsec = 0; }
}

/* common stat implementation; returns 0 / -1 with errno */
static int do_stat(const char *what, int dirfd, const char *path, struct stat *st, int flags) {
    int r = raw_fstatat(dirfd, path, st, flags);
    if (r != 0) {
        /* real failure; log it when the path names something under the world root or is relative */
        if (g_state == 1 && path && (path[0] != '/' || (g_root && !strncmp(path, g_root, g_rootlen)))) {
            char e1[PATH_MAX * 3]; int saved = errno; step(); logline("%s %s - -> err %d", what, enc(path, e1, sizeof e1), saved); errno = saved;
        }
        return -1;
    }
    if (g_state != 1) return 0;
    Node *n = node_of(st->st_dev, st->st_ino);
    if (!n) return 0;
    step();
    char e1[PATH_MAX * 3], e2[PATH_MAX * 3];
    int inj = check_fail(C_STAT, n);
    if (inj) { logline("%s %s %s -> err %d inj:fail", what, enc(path, e1, sizeof e1), enc(n->rel, e2, sizeof e2), inj); errno = inj; return -1; }
    overlay_stat(n, st);
    logline("%s %s %s -> ok", what, enc(path, e1, sizeof e1), enc(n->rel, e2, sizeof e2));
    run_mutations(C_STAT, n);
    return 0;
}

int stat(const char *path, struct stat *st) { ENSURE(); return do_stat("stat", AT_FDCWD, path, st, 0); }
int stat64(const char *path, struct stat64 *st) { ENSURE(); return do_stat("stat", AT_FDCWD, path, (struct stat *)st, 0); }
int lstat(const char *path, struct stat *st) { ENSURE(); return do_stat("lstat", AT_FDCWD, path, st, AT_SYMLINK_NOFOLLOW); }
int lstat64(const char *path, struct stat64 *st) { ENSURE(); return do_stat("lstat", AT_FDCWD, path, (struct stat *)st, AT_SYMLINK_NOFOLLOW); }
int fstatat(int dirfd, const char *path, struct stat *st, int flags) { ENSURE(); return do_stat((flags & AT_SYMLINK_NOFOLLOW) ? "lstat" : "stat", dirfd, path, st, flags); }
int fstatat64(int dirfd, const char *path, struct stat64 *st, int flags) { ENSURE(); return do_stat((flags & AT_SYMLINK_NOFOLLOW) ? "lstat" : "stat", dirfd, path, (struct stat *)st, flags); }
int __xstat(int v, const char *path, struct stat *st) { (void)v; return stat(path, st); }
int __xstat64(int v, const char *path, struct stat64 *st) { (void)v; return stat64(path, st); }
int __lxstat(int v, const char *path, struct stat *st) { (void)v; return lstat(path, st); }
int __lxstat64(int v, const char *path, struct stat64 *st) { (void)v; return lstat64(path, st); }
int __fxstatat(int v, int dirfd, const char *path, struct stat *st, int flags) { (void)v; return fstatat(dirfd, path, st, flags); }
int __fxstatat64(int v, int dirfd, const char *path, struct stat64 *st, int flags) { (void)v; return fstatat64(dirfd, path, st, flags); }

static int do_fstat(int fd, struct stat *st) {
    int r = raw_fstat(fd, st);
    if (r != 0 || g_state != 1) return r;
    Node *n = node_of(st->st_dev, st->st_ino);
    if (!n) return 0;
    step();
    char e2[PATH_MAX * 3];
    overlay_stat(n, st);
    logline("fstat fd%d %s -> ok", fd, enc(n->rel, e2, sizeof e2));
    return 0;
}
int fstat(int fd, struct stat *st) { ENSURE(); return do_fstat(fd, st); }
int fstat64(int fd, struct stat64 *st) { ENSURE(); return do_fstat(fd, (struct stat *)st); }
int __fxstat(int v, int fd, struct stat *st) { (void)v; return fstat(fd, st); }
int __fxstat64(int v, int fd, struct stat64 *st) { (void)v; return fstat64(fd, st); }

static int do_statx(int dirfd, const char *path, int flags, unsigned mask, struct statx *sx) {
    long r = real_syscall(SYS_statx, (long)dirfd, path, (long)flags, (long)mask, sx);
    if (r != 0) {
        if (g_state == 1 && path && *path && (path[0] != '/' || (g_root && !strncmp(path, g_root, g_rootlen)))) {
            char e1[PATH_MAX * 3]; int saved = errno; step(); logline("%s %s - -> err %d", (flags & AT_SYMLINK_NOFOLLOW) ? "lstat" : "stat", enc(path, e1, sizeof e1), saved); errno = saved;
        }
        return -1;
    }
    if (g_state != 1) return 0;
    Node *n = node_of(makedev(sx->stx_dev_major, sx->stx_dev_minor), sx->stx_ino);
    if (!n) return 0;
    step();
    const char *what = (path && *path) ? ((flags & AT_SYMLINK_NOFOLLOW) ? "lstat" : "stat") : "fstat";
    char e1[PATH_MAX * 3], e2[PATH_MAX * 3];
    int inj = (path && *path) ? check_fail(C_STAT, n) : 0;
    if (inj) { logline("%s %s %s -> err %d inj:fail", what, enc(path, e1, sizeof e1), enc(n->rel, e2, sizeof e2), inj); errno = inj; return -1; }
    overlay_statx(n, sx);
    logline("%s %s %s -> ok", what, enc(path ? path : "", e1, sizeof e1), enc(n->rel, e2, sizeof e2));
    if (path && *path) run_mutations(C_STAT, n);
    return 0;
}
int statx(int dirfd, const char *path, int flags, unsigned mask, struct statx *sx) { ENSURE(); return do_statx(dirfd, path, flags, mask, sx); }

/* ---------------------------------------------------------------- open / close / read */
static int do_open(int dirfd, const char *path, int flags, mode_t mode) {
    if (g_state != 1) return real_openat(dirfd, path, flags, mode);
    if (path && (!strcmp(path, "/dev/urandom") || !strcmp(path, "/dev/random")) && g_entropy) {
        int fd = real_openat(dirfd, path, flags, mode);
        if (fd >= 0 && fd < FDMAX) g_fdrand[fd] = 1;
        return fd;
    }
    struct stat st; Node *n = NULL;
    int have = raw_fstatat(dirfd, path, &st, (flags & O_NOFOLLOW) ? AT_SYMLINK_NOFOLLOW : 0) == 0;
    if (have) n = node_of(st.st_dev, st.st_ino);
    if (!n) {
        int fd = real_openat(dirfd, path, flags, mode);
        if (fd < 0 && path && (path[0] != '/' || (g_root && !strncmp(path, g_root, g_rootlen)))) {
            char e1[PATH_MAX * 3]; int saved = errno; step(); logline("open %s - -> err %d", enc(path, e1, sizeof e1), saved); errno = saved;
        }
        return fd;
    }
    step();
    char e1[PATH_MAX * 3], e2[PATH_MAX * 3];
    int inj = check_fail(C_OPEN, n);
    if (inj) { logline("open %s %s -> err %d inj:fail", enc(path, e1, sizeof e1), enc(n->rel, e2, sizeof e2), inj); errno = inj; return -1; }
    if (S_ISFIFO(st.st_mode) && g_fifo_block && !(flags & O_NONBLOCK) && (flags & O_ACCMODE) != O_RDWR) {
        /* the simulator owns the world: no peer will ever open this FIFO */
        logline("open %s %s -> BLOCKED_FOREVER", enc(path, e1, sizeof e1), enc(n->rel, e2, sizeof e2));
        _exit(EXIT_BLOCKED);
    }
    int fd = real_openat(dirfd, path, flags, mode);
    if (fd < 0) { int saved = errno; logline("open %s %s -> err %d", enc(path, e1, sizeof e1), enc(n->rel, e2, sizeof e2), saved); errno = saved; return -1; }
    if (fd < FDMAX) { g_fdnode[fd] = n; g_fdrand[fd] = 0; }
    n->chunk_i = 0;
    logline("open %s %s -> fd", enc(path, e1, sizeof e1), enc(n->rel, e2, sizeof e2));
    run_mutations(C_OPEN, n);
    return fd;
}

int open(const char *path, int flags, ...) { mode_t m = 0; if (flags & (O_CREAT | O_TMPFILE)) { va_list ap; va_start(ap, flags); m = va_arg(ap, mode_t); va_end(ap); } ENSURE(); if (g_state == 3) return (int)syscall(SYS_openat, AT_FDCWD, path, flags, m); return do_open(AT_FDCWD, path, flags, m); }
int open64(const char *path, int flags, ...) { mode_t m = 0; if (flags & (O_CREAT | O_TMPFILE)) { va_list ap; va_start(ap, flags); m = va_arg(ap, mode_t); va_end(ap); } ENSURE(); return do_open(AT_FDCWD, path, flags, m); }
int openat(int dirfd, const char *path, int flags, ...) { mode_t m = 0; if (flags & (O_CREAT | O_TMPFILE)) { va_list ap; va_start(ap, flags); m = va_arg(ap, mode_t); va_end(ap); } ENSURE(); return do_open(dirfd, path, flags, m); }
int openat64(int dirfd, const char *path, int flags, ...) { mode_t m = 0; if (flags & (O_CREAT | O_TMPFILE)) { va_list ap; va_start(ap, flags); m = va_arg(ap, mode_t); va_end(ap); } ENSURE(); return do_open(dirfd, path, flags, m); }

int close(int fd) {
    ENSURE();
    if (fd >= 0 && fd < FDMAX) { g_fdnode[fd] = NULL; g_fdrand[fd] = 0; }
    if (fd == g_logfd && g_logfd >= 0) return 0;
    return real_close(fd);
}

static void fill_entropy(void *buf, size_t n) {
    unsigned char *p = buf;
    while (n) {
        uint64_t z = (g_entropy_seed + (++g_entropy_ctr) * 0x9E3779B97F4A7C15ULL);
        z = (z ^ (z >> 30)) * 0xBF58476D1CE4E5B9ULL; z = (z ^ (z >> 27)) * 0x94D049BB133111EBULL; z ^= z >> 31;
        size_t k = n < 8 ? n : 8; memcpy(p, &z, k); p += k; n -= k;
    }
}

/* sim_read: returns -2 when the fd is not simulated */
static ssize_t sim_read(int fd, void *buf, size_t len, off_t pos_override, int use_pos) {
    if (fd < 0 || fd >= FDMAX) return -2;
    if (g_fdrand[fd] && g_entropy) { step(); logline("read fd%d urandom -> %zu", fd, len); fill_entropy(buf, len); return (ssize_t)len; }
    Node *n = g_fdnode[fd];
    if (!n) return -2;
    step();
    char e2[PATH_MAX * 3];
    run_mutations(C_READ, n);
    off_t pos = use_pos ? pos_override : lseek(fd, 0, SEEK_CUR);
    size_t allowed = len; int limited = 0;
    for (int i = 0; i < g_nfails; i++) {
        Fail *f = &g_fails[i];
        if (f->call != C_READ || f->ino != n->ino) continue;
        if (pos >= f->arg) { logline("read fd%d %s @%ld -> err %d inj:fail", fd, enc(n->rel, e2, sizeof e2), (long)pos, f->err); errno = f->err; return -1; }
        if ((off_t)(pos + allowed) > f->arg) { allowed = f->arg - pos; limited = 1; }
    }
    if (n->nchunks) {
        long c = 0;
        if (n->chunk_i < n->nchunks) c = n->chunks[n->chunk_i++];
        else if (n->chunk_cycle) { n->chunk_i = 0; c = n->chunks[n->chunk_i++]; }
        if (c > 0 && (size_t)c < allowed) { allowed = c; limited = 1; }
    }
    ssize_t r = use_pos ? (ssize_t)real_syscall(SYS_pread64, (long)fd, buf, allowed, (long)pos) : real_read(fd, buf, allowed);
    int saved = errno;
    logline("read fd%d %s @%ld %zu -> %zd%s", fd, enc(n->rel, e2, sizeof e2), (long)pos, len, r, limited ? " inj:short" : "");
    errno = saved;
    return r;
}

ssize_t read(int fd, void *buf, size_t len) {
    ENSURE();
    if (g_state == 1) { ssize_t r = sim_read(fd, buf, len, 0, 0); if (r != -2) return r; }
    return real_read(fd, buf, len);
}
ssize_t readv(int fd, const struct iovec *iov, int cnt) {
    ENSURE();
    if (g_state == 1 && fd >= 0 && fd < FDMAX && (g_fdnode[fd] || g_fdrand[fd])) {
        /* serve the first non-empty buffer only: a legal short read */
        for (int i = 0; i < cnt; i++) if (iov[i].iov_len) return sim_read(fd, iov[i].iov_base, iov[i].iov_len, 0, 0);
        return 0;
    }
    return (ssize_t)real_syscall(SYS_readv, (long)fd, iov, (long)cnt);
}
ssize_t pread(int fd, void *buf, size_t len, off_t off) {
    ENSURE();
    if (g_state == 1) { ssize_t r = sim_read(fd, buf, len, off, 1); if (r != -2) return r; }
    return (ssize_t)real_syscall(SYS_pread64, (long)fd, buf, len, (long)off);
}
ssize_t pread64(int fd, void *buf, size_t len, off64_t off) { return pread(fd, buf, len, off); }

/* ---------------------------------------------------------------- stdout */
static ssize_t sim_out(const void *buf, size_t len) {
    step();
    if (g_epipe_after >= 0 && g_out_accepted >= g_epipe_after) {
        logline("write fd1 %zu -> err %d inj:epipe", len, EPIPE);
        struct sigaction sa; if (sigaction(SIGPIPE, NULL, &sa) == 0 && sa.sa_handler == SIG_DFL) { raise(SIGPIPE); }
        errno = EPIPE; return -1;
    }
    size_t allowed = len; int limited = 0;
    if (g_nout) {
        long c = 0;
        if (g_out_i < g_nout) c = g_out_sched[g_out_i++];
        else if (g_out_cycle) { g_out_i = 0; c = g_out_sched[g_out_i++]; }
        if (c > 0 && (size_t)c < allowed) { allowed = c; limited = 1; }
    }
    if (g_epipe_after >= 0 && (long)(g_out_accepted + allowed) > g_epipe_after) { allowed = g_epipe_after - g_out_accepted; limited = 1; }
    ssize_t r = real_write(1, buf, allowed);
    int saved = errno;
    if (r > 0) g_out_accepted += r;
    logline("write fd1 %zu -> %zd%s", len, r, limited ? " inj:short" : "");
    errno = saved;
    return r;
}

ssize_t write(int fd, const void *buf, size_t len) {
    ENSURE();
    if (g_state == 1 && fd == 1) return sim_out(buf, len);
    return real_write(fd, buf, len);
}
ssize_t writev(int fd, const struct iovec *iov, int cnt) {
    ENSURE();
    if (g_state == 1 && fd == 1) {
        for (int i = 0; i < cnt; i++) if (iov[i].iov_len) return sim_out(iov[i].iov_base, iov[i].iov_len);
        return 0;
    }
    return (ssize_t)real_syscall(SYS_writev, (long)fd, iov, (long)cnt);
}

/* ---------------------------------------------------------------- directory streams */
static DirState *dir_find(DIR *dp) { for (int i = 0; i < 256; i++) if (g_dirs[i].dp == dp) return &g_dirs[i]; return NULL; }

static int name_cmp(const void *a, const void *b) { return strcmp(((const struct dirent64 *)a)->d_name, ((const struct dirent64 *)b)->d_name); }

static void dir_load(DirState *ds) {
    int cap = 64; ds->ents = malloc(cap * sizeof(struct dirent64)); ds->n = 0;
    struct dirent64 *e;
    while ((e = real_readdir64(ds->dp))) {
        if (ds->n == cap) { cap *= 2; ds->ents = realloc(ds->ents, cap * sizeof(struct dirent64)); }
        memcpy(&ds->ents[ds->n], e, sizeof(struct dirent64)); ds->n++;
    }
    qsort(ds->ents, ds->n, sizeof(struct dirent64), name_cmp); /* default arrival order: byte-sorted ('.' and '..' sort first among usual names) */
    /* dots first */
    int w = 0;
    for (int pass = 0; pass < 2; pass++) for (int i = w; i < ds->n; i++) {
        const char *want = pass == 0 ? "." : "..";
        if (!strcmp(ds->ents[i].d_name, want)) { struct dirent64 t = ds->ents[i]; memmove(&ds->ents[w + 1], &ds->ents[w], (i - w) * sizeof t); ds->ents[w++] = t; break; }
    }
    Node *n = ds->node;
    if (n && n->norder) {
        /* stable reorder: listed names first in the listed order, the rest keep sorted order */
        struct dirent64 *out = malloc((ds->n ? ds->n : 1) * sizeof(struct dirent64)); int o = 0;
        char *used = calloc(ds->n ? ds->n : 1, 1);
        for (int i = 0; i < w; i++) { out[o++] = ds->ents[i]; used[i] = 1; }
        for (int k = 0; k < n->norder; k++) for (int i = w; i < ds->n; i++) if (!used[i] && !strcmp(ds->ents[i].d_name, n->order[k])) { out[o++] = ds->ents[i]; used[i] = 1; break; }
        for (int i = w; i < ds->n; i++) if (!used[i]) out[o++] = ds->ents[i];
        free(ds->ents); free(used); ds->ents = out;
    }
    ds->pos = 0; ds->delivered = 0; ds->failed = 0;
}

static DIR *register_dir(DIR *dp, Node *n) {
    for (int i = 0; i < 256; i++) if (!g_dirs[i].dp) { g_dirs[i].dp = dp; g_dirs[i].node = n; g_dirs[i].ents = NULL; dir_load(&g_dirs[i]); return dp; }
    die("too many open directories"); return NULL;
}

DIR *opendir(const char *path) {
    ENSURE();
    if (g_state != 1) return real_opendir(path);
    Node *n = node_at(AT_FDCWD, path, 1);
    char e1[PATH_MAX * 3], e2[PATH_MAX * 3];
    if (!n) {
        DIR *dp = real_opendir(path);
        if (!dp && path && (path[0] != '/' || (g_root && !strncmp(path, g_root, g_rootlen)))) { int saved = errno; step(); logline("opendir %s - -> err %d", enc(path, e1, sizeof e1), saved); errno = saved; }
        return dp;
    }
    step();
    int inj = check_fail(C_OPENDIR, n);
    if (inj) { logline("opendir %s %s -> err %d inj:fail", enc(path, e1, sizeof e1), enc(n->rel, e2, sizeof e2), inj); errno = inj; return NULL; }
    DIR *dp = real_opendir(path);
    if (!dp) { int saved = errno; logline("opendir %s %s -> err %d", enc(path, e1, sizeof e1), enc(n->rel, e2, sizeof e2), saved); errno = saved; return NULL; }
    register_dir(dp, n);
    logline("opendir %s %s -> ok", enc(path, e1, sizeof e1), enc(n->rel, e2, sizeof e2));
    run_mutations(C_OPENDIR, n);
    return dp;
}

DIR *fdopendir(int fd) {
    ENSURE();
    if (g_state != 1) return real_fdopendir(fd);
    struct stat st; Node *n = NULL;
    if (raw_fstat(fd, &st) == 0) n = node_of(st.st_dev, st.st_ino);
    DIR *dp = real_fdopendir(fd);
    if (dp && n) { step(); char e2[PATH_MAX * 3]; register_dir(dp, n); logline("opendir fd%d %s -> ok", fd, enc(n->rel, e2, sizeof e2)); }
    return dp;
}

struct dirent64 *readdir64(DIR *dp) {
    ENSURE();
    DirState *ds = g_state == 1 ? dir_find(dp) : NULL;
    if (!ds) return real_readdir64(dp);
    step();
    char e1[PATH_MAX * 3], e2[PATH_MAX * 3];
    Node *dn = ds->node;
    if (ds->pos >= ds->n) {
        /* an error may also strike where the listing would have ended (the only place it can, in an empty directory) */
        for (int i = 0; i < g_nfails && !ds->failed; i++) {
            Fail *f = &g_fails[i];
            long at = f->arg >= 0 ? f->arg : -f->arg - 1;
            if (f->call == C_READDIR && f->ino == dn->ino && at == ds->delivered) {
                ds->failed = 1; f->count++; logline("readdir %s @%d -> err %d inj:fail at-end", enc(dn->rel, e2, sizeof e2), ds->delivered, f->err);
                errno = f->err; return NULL;
            }
        }
        logline("readdir %s -> end", enc(dn->rel, e2, sizeof e2)); errno = 0; return NULL;
    }
    struct dirent64 *e = &ds->ents[ds->pos];
    int isdot = !strcmp(e->d_name, ".") || !strcmp(e->d_name, "..");
    if (!isdot) {
        for (int i = 0; i < g_nfails; i++) {
            Fail *f = &g_fails[i];
            /* a bad directory block fails for every stream that reaches it (once per stream: the caller may go on reading) */
            /* arg >= 0: the error strikes before entry number arg and the stream can be read on; arg < 0: before entry -arg-1, and
               the rest of the listing is lost (the next call reports the end of the stream) */
            long at = f->arg >= 0 ? f->arg : -f->arg - 1;
            if (f->call == C_READDIR && f->ino == dn->ino && at == ds->delivered && !ds->failed) {
                ds->failed = 1; f->count++; logline("readdir %s @%d -> err %d inj:fail%s", enc(dn->rel, e2, sizeof e2), ds->delivered, f->err, f->arg < 0 ? " then-end" : "");
                if (f->arg < 0) ds->pos = ds->n;
                errno = f->err; return NULL;
            }
        }
    }
    ds->pos++;
    ds->cur = *e;
    Node *cn = isdot ? NULL : node_by_ino(e->d_ino);
    if (!isdot) ds->delivered++;
    if (cn && (cn->ov & OV_DINO)) ds->cur.d_ino = cn->o_dino;
    else if (cn && (cn->ov & OV_INO)) ds->cur.d_ino = cn->o_ino;
    if (dn->dtype_unknown && !isdot) ds->cur.d_type = DT_UNKNOWN;
    logline("readdir %s -> %s type=%d", enc(dn->rel, e2, sizeof e2), enc(ds->cur.d_name, e1, sizeof e1), (int)ds->cur.d_type);
    if (cn) run_mutations(C_DIRENT, cn);
    return &ds->cur;
}
struct dirent *readdir(DIR *dp) { return (struct dirent *)readdir64(dp); }
int readdir64_r(DIR *dp, struct dirent64 *entry, struct dirent64 **result) {
    errno = 0; struct dirent64 *e = readdir64(dp);
    if (!e) { *result = NULL; return errno; }
    *entry = *e; *result = entry; return 0;
}
int readdir_r(DIR *dp, struct dirent *entry, struct dirent **result) { return readdir64_r(dp, (struct dirent64 *)entry, (struct dirent64 **)result); }

int closedir(DIR *dp) {
    ENSURE();
    DirState *ds = dir_find(dp);
    if (ds) { free(ds->ents); ds->ents = NULL; ds->dp = NULL; }
    return real_closedir(dp);
}

/* ---------------------------------------------------------------- links and canonical paths */
static ssize_t do_readlink(int dirfd, const char *path, char *buf, size_t len) {
    if (g_state != 1) return real_readlinkat(dirfd, path, buf, len);
    Node *n = node_at(dirfd, path, 0);
    if (!n) return real_readlinkat(dirfd, path, buf, len);
    step();
    char e1[PATH_MAX * 3], e2[PATH_MAX * 3];
    int inj = check_fail(C_READLINK, n);
    if (inj) { logline("readlink %s %s -> err %d inj:fail", enc(path, e1, sizeof e1), enc(n->rel, e2, sizeof e2), inj); errno = inj; return -1; }
    ssize_t r = real_readlinkat(dirfd, path, buf, len);
    int saved = errno;
    logline("readlink %s %s -> %zd", enc(path, e1, sizeof e1), enc(n->rel, e2, sizeof e2), r);
    run_mutations(C_READLINK, n);
    errno = saved;
    return r;
}
ssize_t readlink(const char *path, char *buf, size_t len) { ENSURE(); return do_readlink(AT_FDCWD, path, buf, len); }
ssize_t readlinkat(int dirfd, const char *path, char *buf, size_t len) { ENSURE(); return do_readlink(dirfd, path, buf, len); }

char *realpath(const char *path, char *resolved) {
    ENSURE();
    if (g_state != 1) return real_realpath(path, resolved);
    Node *n = node_at(AT_FDCWD, path, 1);
    char e1[PATH_MAX * 3], e2[PATH_MAX * 3];
    if (!n) {
        char *r = real_realpath(path, resolved);
        if (!r && path && (path[0] != '/' || (g_root && !strncmp(path, g_root, g_rootlen)))) { int saved = errno; step(); logline("realpath %s - -> err %d", enc(path, e1, sizeof e1), saved); errno = saved; }
        return r;
    }
    step();
    int inj = check_fail(C_REALPATH, n);
    if (inj) { logline("realpath %s %s -> err %d inj:fail", enc(path, e1, sizeof e1), enc(n->rel, e2, sizeof e2), inj); errno = inj; return NULL; }
    char *r = real_realpath(path, resolved);
    int saved = errno;
    logline("realpath %s %s -> %s", enc(path, e1, sizeof e1), enc(n->rel, e2, sizeof e2), r ? "ok" : "err");
    run_mutations(C_REALPATH, n);
    errno = saved;
    return r;
}
char *__realpath_chk(const char *path, char *resolved, size_t len) { (void)len; return realpath(path, resolved); }
char *canonicalize_file_name(const char *path) { return realpath(path, NULL); }

/* ---------------------------------------------------------------- clock */
static long long sim_now(void) {
    long long t = g_clock_ns + g_clock_calls * g_clock_tick;
    if (g_jump_k >= 0 && g_clock_calls >= g_jump_k) t = g_jump_ns;
    if (g_clock_calls == 0) logline("clock realtime -> sim (first read; later reads are not logged)");
    g_clock_calls++;
    return t;
}

int clock_gettime(clockid_t id, struct timespec *ts) {
    ENSURE();
    if (g_state != 1 || !g_clock) return real_clock_gettime(id, ts);
    if (id == CLOCK_REALTIME || id == CLOCK_REALTIME_COARSE) {
        long long t = sim_now(); long long s; long ns; ts_from_ns(t, &s, &ns); ts->tv_sec = s; ts->tv_nsec = ns; return 0;
    }
    if (id == CLOCK_MONOTONIC || id == CLOCK_MONOTONIC_COARSE || id == CLOCK_MONOTONIC_RAW || id == CLOCK_BOOTTIME) {
        long long t = 1000LL * 1000000000LL + (g_mono_calls++) * (g_clock_tick > 0 ? 1000 : 0); ts->tv_sec = t / 1000000000LL; ts->tv_nsec = t % 1000000000LL; return 0;
    }
    return real_clock_gettime(id, ts);
}
int gettimeofday(struct timeval *tv, void *tz) {
    ENSURE();
    if (g_state != 1 || !g_clock) { struct timespec ts; real_clock_gettime(CLOCK_REALTIME, &ts); if (tv) { tv->tv_sec = ts.tv_sec; tv->tv_usec = ts.tv_nsec / 1000; } (void)tz; return 0; }
    long long t = sim_now(); long long s; long ns; ts_from_ns(t, &s, &ns);
    if (tv) { tv->tv_sec = s; tv->tv_usec = ns / 1000; }
    return 0;
}
time_t time(time_t *out) {
    ENSURE();
    time_t r;
    if (g_state != 1 || !g_clock) { struct timespec ts; real_clock_gettime(CLOCK_REALTIME, &ts); r = ts.tv_sec; }
    else { long long s; long ns; ts_from_ns(sim_now(), &s, &ns); r = s; }
    if (out) *out = r;
    return r;
}

/* ---------------------------------------------------------------- entropy */
ssize_t getrandom(void *buf, size_t len, unsigned flags) {
    ENSURE();
    if (g_state == 1 && g_entropy) { step(); logline("getrandom %zu -> sim", len); fill_entropy(buf, len); return (ssize_t)len; }
    return (ssize_t)real_syscall(SYS_getrandom, buf, len, (long)flags);
}
int getentropy(void *buf, size_t len) { if (len > 256) { errno = EIO; return -1; } return getrandom(buf, len, 0) == (ssize_t)len ? 0 : -1; }

long syscall(long nr, ...) {
    va_list ap; va_start(ap, nr);
    long a = va_arg(ap, long), b = va_arg(ap, long), c = va_arg(ap, long), d = va_arg(ap, long), e = va_arg(ap, long), f = va_arg(ap, long);
    va_end(ap);
    if (g_state == 0) init();
    if (g_state == 3 || !real_syscall) { real_syscall = dlsym(RTLD_NEXT, "syscall"); return real_syscall(nr, a, b, c, d, e, f); }
    if (g_state == 1) {
        if (nr == SYS_getrandom && g_entropy) return getrandom((void *)a, (size_t)b, (unsigned)c);
        if (nr == SYS_statx) return do_statx((int)a, (const char *)b, (int)c, (unsigned)d, (struct statx *)e);
    }
    return real_syscall(nr, a, b, c, d, e, f);
}

/* ---------------------------------------------------------------- identity */
static int fill_name(const char *name, char *buf, size_t buflen, char **dst) {
    size_t n = strlen(name) + 1;
    if (n + 8 > buflen) return ERANGE;
    memcpy(buf, name, n); *dst = buf; return 0;
}
int getpwuid_r(uid_t uid, struct passwd *pw, char *buf, size_t buflen, struct passwd **res) {
    ENSURE();
    if (g_state != 1 || !g_ident) return real_getpwuid_r(uid, pw, buf, buflen, res);
    step();
    for (int i = 0; i < g_nusers; i++) if (g_users[i].id == uid) {
        memset(pw, 0, sizeof *pw);
        if (fill_name(g_users[i].name, buf, buflen, &pw->pw_name)) { *res = NULL; return ERANGE; }
        size_t l = strlen(buf); buf[l + 1] = 0;
        pw->pw_passwd = buf + l; pw->pw_gecos = buf + l; pw->pw_dir = buf + l; pw->pw_shell = buf + l; pw->pw_uid = uid; pw->pw_gid = uid;
        *res = pw; logline("getpwuid %u -> %s", (unsigned)uid, g_users[i].name); return 0;
    }
    logline("getpwuid %u -> none", (unsigned)uid);
    *res = NULL; return 0;
}
int getgrgid_r(gid_t gid, struct group *gr, char *buf, size_t buflen, struct group **res) {
    ENSURE();
    if (g_state != 1 || !g_ident) return real_getgrgid_r(gid, gr, buf, buflen, res);
    step();
    for (int i = 0; i < g_ngroups; i++) if (g_groups[i].id == gid) {
        memset(gr, 0, sizeof *gr);
        size_t n = strlen(g_groups[i].name) + 1;
        if (n + 16 + sizeof(char *) > buflen) { *res = NULL; return ERANGE; }
        /* layout: [char* NULL][name\0][\0] */
        char **mem = (char **)buf; size_t off = sizeof(char *);
        /* keep pointer alignment */
        mem[0] = NULL; memcpy(buf + off, g_groups[i].name, n); buf[off + n] = 0;
        gr->gr_name = buf + off; gr->gr_passwd = buf + off + n; gr->gr_gid = gid; gr->gr_mem = mem;
        *res = gr; logline("getgrgid %u -> %s", (unsigned)gid, g_groups[i].name); return 0;
    }
    logline("getgrgid %u -> none", (unsigned)gid);
    *res = NULL; return 0;
}

/* ---------------------------------------------------------------- terminal */
int isatty(int fd) {
    ENSURE();
    if (g_state == 1 && g_tty && fd == 1) { step(); logline("isatty fd1 -> 1 (simulated terminal)"); return 1; }
    static int (*real_isatty)(int) = NULL;
    if (!real_isatty) real_isatty = dlsym(RTLD_NEXT, "isatty");
    return real_isatty(fd);
}
